(* Lemmas about bond descriptors: the translated is_compatible / order_of_pre against the
   specification, and facts about parse_descr. *)
From Coq Require Import List ZArith QArith Ascii String Bool Lia.
From GBS Require Import Model.PyStr Model.Num Model.Bond Src.SrcBond.
Import ListNotations.
Open Scope Z_scope.

(* ---- specification side (shares nothing with the code) ---- *)
Definition conj_sym (sa sb : str) : Prop :=
  (sa = lit "$" /\ sb = lit "$") \/ (sa = lit "<" /\ sb = lit ">") \/ (sa = lit ">" /\ sb = lit "<").

Definition compat_spec (a b : descr) : Prop :=
  d_sym a <> [] /\ d_sym b <> [] /\ d_id a = d_id b /\ d_order a = d_order b /\
  conj_sym (d_sym a) (d_sym b).

Lemma str_eqb_eq a b : str_eqb a b = true -> a = b.
Proof.
  revert b; induction a as [|x a IH]; intros [|y b]; cbn; try discriminate; try reflexivity.
  intros H. apply andb_true_iff in H as [H1 H2]. apply Ascii.eqb_eq in H1. f_equal; auto.
Qed.

Lemma str_eqb_refl a : str_eqb a a = true.
Proof. induction a as [|x a IH]; cbn; [reflexivity|]. rewrite Ascii.eqb_refl. exact IH. Qed.

Lemma order_eqb_eq a b : order_eqb a b = true <-> a = b.
Proof. destruct a, b; simpl; split; intros H; try reflexivity; try discriminate. Qed.

Lemma id_eqb_eq a b : id_eqb a b = true <-> a = b.
Proof.
  destruct a as [x|], b as [y|]; simpl; split; intros H; try discriminate; try reflexivity.
  - apply Z.eqb_eq in H. congruence.
  - injection H as ->. apply Z.eqb_refl.
Qed.

Ltac case_chars :=
  repeat match goal with
         | |- context [Ascii.eqb ?c ?k] =>
             is_var c; destruct (Ascii.eqb_spec c k); subst; cbn [andb orb negb]
         end.

(* Decision procedure for statements about is_compatible on two destructed descriptors:
   split on the two finite comparisons, then on the shape of the two symbol strings. *)
Ltac split_syms sa sb :=
  destruct sa as [|ca [|ca' sa']]; destruct sb as [|cb [|cb' sb']];
  cbn [str_eqb lit list_ascii_of_string andb orb negb].

Theorem src_compat_iff a b : is_compatible a b = true <-> compat_spec a b.
Proof.
  destruct a as [sa ia wa ta oa pa aa na], b as [sb ib wb tb ob pb ab nb].
  unfold is_compatible, compat_spec, conj_sym; cbn [d_sym d_id d_order].
  destruct (order_eqb oa ob) eqn:Eo; cbn [negb].
  2:{ split; [discriminate|]. intros (_ & _ & _ & Ho & _). apply order_eqb_eq in Ho. congruence. }
  destruct (id_eqb ia ib) eqn:Ei; cbn [negb].
  2:{ split; [discriminate|]. intros (_ & _ & Hi & _). apply id_eqb_eq in Hi. congruence. }
  apply order_eqb_eq in Eo. apply id_eqb_eq in Ei. subst.
  split_syms sa sb; case_chars;
    (split; [ try discriminate; intros _; repeat split; try discriminate; try reflexivity;
              first [ left; split; reflexivity
                    | right; left; split; reflexivity
                    | right; right; split; reflexivity ]
            | intros (Ha & Hb & _ & _ & Hc); try reflexivity; try congruence;
              unfold lit in Hc; cbn in Hc;
              destruct Hc as [[H1 H2]|[[H1 H2]|[H1 H2]]]; try congruence;
              try (inversion H1; inversion H2; subst; congruence) ]).
Qed.

Theorem src_compat_model a b : is_compatible a b = compatible a b.
Proof.
  destruct a as [sa ia wa ta oa pa aa na], b as [sb ib wb tb ob pb ab nb].
  unfold is_compatible, compatible; cbn [d_sym d_id d_order].
  destruct (order_eqb oa ob), (id_eqb ia ib); cbn [negb]; try reflexivity;
    split_syms sa sb; case_chars; reflexivity.
Qed.

Theorem src_compat_sym a b : is_compatible a b = is_compatible b a.
Proof.
  apply eq_true_iff_eq. rewrite !src_compat_iff. unfold compat_spec, conj_sym.
  split; intros (H1 & H2 & H3 & H4 & H5); repeat split; auto; tauto.
Qed.

Theorem src_compat_empty a b : d_sym a = [] -> is_compatible a b = false /\ is_compatible b a = false.
Proof.
  intros H. split; apply not_true_is_false; rewrite src_compat_iff; unfold compat_spec; tauto.
Qed.

(* weights, transition lists, stored prefix text, atom and running number are irrelevant *)
Definition same_class (a a' : descr) : Prop :=
  d_sym a = d_sym a' /\ d_id a = d_id a' /\ d_order a = d_order a'.

Theorem src_compat_class a a' b b' :
  same_class a a' -> same_class b b' -> is_compatible a b = is_compatible a' b'.
Proof.
  intros (S1 & I1 & O1) (S2 & I2 & O2). apply eq_true_iff_eq. rewrite !src_compat_iff.
  unfold compat_spec. rewrite S1, I1, O1, S2, I2, O2. tauto.
Qed.

Definition with_weight (a : descr) (w : num) (t : option (list num)) : descr :=
  {| d_sym := d_sym a; d_id := d_id a; d_weight := w; d_trans := t; d_order := d_order a;
     d_pre := d_pre a; d_atom := d_atom a; d_num := d_num a |}.

Theorem src_compat_weight_irrelevant a b w t w' t' :
  is_compatible (with_weight a w t) (with_weight b w' t') = is_compatible a b.
Proof. apply src_compat_class; repeat split. Qed.

(* ---- bond order from the characters preceding a descriptor ---- *)
Theorem src_order_model pre : SrcBond.order_of_pre pre = Bond.order_of_pre pre.
Proof. reflexivity. Qed.

Theorem src_order_empty : SrcBond.order_empty = OUnspec.
Proof. reflexivity. Qed.

Theorem src_order_table :
  SrcBond.order_of_pre [] = OSingle /\ SrcBond.order_of_pre (lit "-") = OSingle /\
  SrcBond.order_of_pre (lit "=") = ODouble /\ SrcBond.order_of_pre (lit "#") = OTriple /\
  SrcBond.order_of_pre (lit ":") = OArom.
Proof. repeat split. Qed.

(* ---- what parse_descr returns ---- *)
Definition wf_sym (s : str) : Prop := s = [] \/ s = lit "$" \/ s = lit "<" \/ s = lit ">".

Lemma in_set_syms c : in_set (lit "$<>") c = true -> [c] = lit "$" \/ [c] = lit "<" \/ [c] = lit ">".
Proof.
  unfold in_set, lit; cbn [list_ascii_of_string existsb].
  destruct (Ascii.eqb_spec c "$"); [subst; auto|].
  destruct (Ascii.eqb_spec c "<"); [subst; auto|].
  destruct (Ascii.eqb_spec c ">"); [subst; auto|]. discriminate.
Qed.

Theorem parse_descr_shape raw n pre atom d :
  parse_descr raw n pre atom = OK d ->
  wf_sym (d_sym d) /\ d_pre d = pre /\ d_num d = n /\
  (d_sym d = [] -> raw = lit "[]" /\ d_order d = SrcBond.order_empty /\ d_weight d = Fin 1 /\ d_trans d = None /\ d_id d = None) /\
  (d_sym d <> [] -> d_order d = SrcBond.order_of_pre pre /\ d_atom d = atom).
Proof.
  unfold parse_descr.
  destruct (str_eqb raw (lit "[]")) eqn:E0.
  - intros H; injection H as <-. cbn. repeat split; try (left; reflexivity); try congruence.
    apply str_eqb_eq. exact E0.
  - set (raw' := if len pre =? 0 then _ else raw).
    destruct (index raw' 0) as [c0|]; [|discriminate].
    destruct (index raw' (-1)) as [cl|]; [|discriminate].
    destruct (negb _); [discriminate|].
    destruct (index raw' 1) as [c1|]; [|discriminate].
    destruct (negb (in_set _ c1)) eqn:Es; [discriminate|].
    destruct (_ || _)%bool; [discriminate|].
    match goal with |- context [bind ?x _] => destruct x as [id|]; cbn [bind]; [|discriminate] end.
    match goal with |- context [bind ?x _] => destruct x as [wt|]; cbn [bind]; [|discriminate] end.
    destruct (_ || _)%bool; [discriminate|].
    intros H; injection H as <-. cbn.
    apply negb_false_iff in Es. apply in_set_syms in Es.
    repeat split; try reflexivity.
    + right. exact Es.
    + discriminate.
    + discriminate.
    + discriminate.
    + discriminate.
    + discriminate.
Qed.
