(* Tie T for the descriptor printer: Src/SrcDescrPrint.v holds every piece BondDescriptor.generate_string appends (the f-strings translated into
   concatenations over the float formatter) and its two decisions, and _create_compatible_bond_text, REGENERATED from bond.py (statement
   skeletons checked).  The printer rebuilt from them is proved equal to Model/Bond.v's print_descr, the printer of the C01 theorems: with
   Proofs/DescrSrcP.v the round trip parse -> print -> parse is then a statement about functions rebuilt from the source on both sides. *)
From Coq Require Import List ZArith QArith Ascii String Bool Lia.
From GBS Require Import Model.PyStr Model.Num Model.Bond Src.SrcDescrPrint.
Import ListNotations.

Section PrintSrc.
  Variable fprint : num -> str.

  Definition print_descr_src (ext : bool) (d : descr) : str :=
    let s := ([] ++ pd_head d)%list in
    let s := if pd_shows_weight ext d then
               let s := (s ++ pd_open_bar)%list in
               let s := if pd_single d then (s ++ pd_weight fprint d)%list
                        else pd_cut (fold_left (fun acc t => (acc ++ pd_item fprint t)%list) (match d_trans d with Some l => l | None => [] end) s) in
               (s ++ pd_close_bar)%list
             else s in
    strip (s ++ pd_close)%list.

  Lemma fold_app_concat (f : num -> str) : forall l (s : str), fold_left (fun acc t => (acc ++ f t)%list) l s = (s ++ List.concat (map f l))%list.
  Proof. induction l as [|t l IH]; intros s; cbn [fold_left map List.concat]; [symmetry; apply app_nil_r|]. rewrite IH, app_assoc. reflexivity. Qed.

  Theorem print_descr_is_source ext d : print_descr_src ext d = print_descr fprint ext d.
  Proof.
    unfold print_descr_src, print_descr, pd_shows_weight, pd_single, pd_head, pd_open_bar, pd_close_bar, pd_close, pd_weight, pd_cut, pd_item. cbv zeta. cbn [app].
    destruct ext; cbn [andb]; [|reflexivity].
    destruct (d_trans d) as [l|]; cbn [negb orb].
    - rewrite fold_app_concat. rewrite <- !app_assoc. reflexivity.
    - destruct (negb (num_eqb (d_weight d) (Fin 1))); [rewrite <- !app_assoc; reflexivity|reflexivity].
  Qed.
End PrintSrc.

(* _create_compatible_bond_text *)
Definition compatible_bond_text_src (b : descr) : str :=
  let sym := lit "$" in
  let sym := if ct_is_left b then lit "<" else sym in
  let sym := if ct_is_right b then lit ">" else sym in
  ct_text b sym.
Theorem compatible_bond_text_is_source b : compatible_bond_text_src b = compatible_bond_text b.
Proof.
  unfold compatible_bond_text_src, compatible_bond_text, ct_is_left, ct_is_right, ct_text. cbv zeta.
  destruct (str_eqb (d_sym b) (lit ">")) eqn:E1; [reflexivity|]. destruct (str_eqb (d_sym b) (lit "<")); reflexivity.
Qed.
