(* Mixture bookkeeping (Model/Sys.v): what an accepted system looks like, and the two refutations. *)
From Coq Require Import List ZArith QArith Qabs Qfield Lqa Lia Bool String.
From GBS Require Import Model.PyStr Model.Num Model.Bond Model.Sys.
Import ListNotations.
Open Scope Q_scope.

(* a component after acceptance: all three values set, one system mass, abs = rel/100 * system *)
Definition comp_ok (s : Q) (c : comp) : Prop :=
  exists m, c = Some m /\ x_sys m = Some s /\
            ((exists a r, x_abs m = Some a /\ x_rel m = Some r /\ a == r / 100 * s) \/ (x_abs m = None /\ x_rel m = None)).

Lemma Qeq_bool_false_neq a b : Qeq_bool a b = false -> ~ a == b.
Proof. intros H E. apply Qeq_bool_iff in E. congruence. Qed.

Lemma set_sys_ok m s m' : set_sys m s = OK m' -> comp_ok s (Some m').
Proof.
  unfold set_sys. destruct (Qlt_bool s 0); [discriminate|].
  destruct (x_rel m) as [r|] eqn:Er.
  - intros H; injection H as <-. exists {| x_abs := Some (r / 100 * s); x_rel := Some r; x_sys := Some s |}.
    split; [reflexivity|]. split; [reflexivity|]. left. exists (r / 100 * s), r. repeat split; reflexivity.
  - destruct (x_abs m) as [a|] eqn:Ea.
    + destruct (Qeq_bool s 0) eqn:Ez; [discriminate|]. intros H; injection H as <-.
      eexists. split; [reflexivity|]. split; [reflexivity|]. left. exists a, (100 * a / s). repeat split; try reflexivity.
      cbn. field. apply Qeq_bool_false_neq. exact Ez.
    + intros H; injection H as <-. eexists. split; [reflexivity|]. split; [reflexivity|]. right. split; reflexivity.
Qed.

Lemma set_all_sys_ok s : forall cs done out,
  Forall (comp_ok s) done -> set_all_sys cs s done = OK (true, out) -> Forall (comp_ok s) out.
Proof.
  induction cs as [|c cs IH]; intros done out Hd H; cbn [set_all_sys] in H.
  - injection H as <-. apply Forall_rev. exact Hd.
  - destruct c as [m|]; [|discriminate].
    destruct (set_sys m s) as [m'|] eqn:Es; cbn [bind] in H; [|discriminate].
    eapply IH; [|exact H]. constructor; [eapply set_sys_ok; eauto|exact Hd].
Qed.

(* C12: whatever the specification, an accepted (generable) system has one system mass and every
   component's absolute mass is its percentage of it *)
Theorem estimate_accepted_consistent cs smw out :
  estimate cs smw = OK (true, out) -> exists s, Forall (comp_ok s) out.
Proof.
  unfold estimate.
  match goal with |- context [bind ?x _] => destruct x as [[[cs1 totf] nf]|] eqn:Est; cbn [bind]; [|discriminate] end.
  destruct (_ && _)%bool; [discriminate|].
  destruct (negb (consistent _)); [discriminate|].
  match goal with |- context [match ?l with [] => _ | s :: _ => _ end] => destruct l as [|s l'] end; [discriminate|].
  intros H. exists s. eapply set_all_sys_ok; [constructor|exact H].
Qed.

(* all percentages written and not summing to 100 (beyond the code's 1e-6): rejected *)
Theorem estimate_rejects_bad_sum cs smw :
  List.length (somes (map rel_known cs)) = List.length cs ->
  (1 # 1000000) < Qabs (sumq (somes (map rel_known cs)) - 100) ->
  exists m, estimate cs smw = Err ERuntime m.
Proof.
  intros L H. unfold estimate. rewrite L.
  assert (E : Nat.eqb (S (List.length cs)) (List.length cs) = false) by (apply Nat.eqb_neq; lia).
  rewrite E. cbn [bind]. rewrite Nat.eqb_refl. cbn [andb].
  assert (B : Qlt_bool (1 # 1000000) (Qabs (sumq (somes (map rel_known cs)) - 100)) = true).
  { unfold Qlt_bool. apply negb_true_iff. destruct (Qle_bool _ _) eqn:Q; [|reflexivity]. apply Qle_bool_iff in Q. lra. }
  rewrite B. eauto.
Qed.

(* exactly one percentage missing and the written ones exceed 100: rejected *)
Theorem estimate_rejects_over_100 cs smw :
  S (List.length (somes (map rel_known cs))) = List.length cs ->
  100 < sumq (somes (map rel_known cs)) ->
  exists m, estimate cs smw = Err ERuntime m.
Proof.
  intros L H. unfold estimate. rewrite L, Nat.eqb_refl.
  assert (B : Qlt_bool (100 - sumq (somes (map rel_known cs))) 0 = true).
  { unfold Qlt_bool. apply negb_true_iff. destruct (Qle_bool _ _) eqn:Q; [|reflexivity]. apply Qle_bool_iff in Q. lra. }
  rewrite B. cbn [orb bind]. eauto.
Qed.

(* ---- the full soundness / completeness statements are false of the faithful model ---- *)
Definition pct (r : Q) : comp := Some {| x_abs := None; x_rel := Some r; x_sys := None |}.
Definition absm (a : Q) : comp := Some {| x_abs := Some a; x_rel := None; x_sys := None |}.
Definition rels (out : list comp) : list Q := somes (map rel_known out).

(* contradictory (300 + 200 + 50% of 2000 = 1500, not 2000) yet accepted, percentages sum to 75 *)
Theorem sound_refuted :
  exists cs smw out, estimate cs smw = OK (true, out) /\ ~ sumq (rels out) == 100.
Proof.
  exists [absm 300; absm 200; pct 50], (Some 2000).
  eexists. split; [vm_compute; reflexivity|]. vm_compute. discriminate.
Qed.

(* determined (S = (100+200)/0.5 = 600) yet reported not generable *)
Theorem complete_refuted :
  exists cs out, estimate cs None = OK (false, out) /\
    (forall S : Q, 100 + 200 + (50 # 100) * S == S -> S == 600).
Proof.
  exists [absm 100; absm 200; pct 50]. eexists. split; [vm_compute; reflexivity|]. intros S H. lra.
Qed.
