(* Facts about the Python string primitives of Model/PyStr.v on concatenations: find / rfind / count of a single
   character, slices at computed positions, strip, split on whitespace, and the decimal integer printer read back by
   int().  They carry the descriptor round trip of Proofs/RoundTrip.v. *)
From Coq Require Import List ZArith Ascii String Bool Lia.
From GBS Require Import Model.PyStr Model.Num.
Import ListNotations.
Open Scope Z_scope.

Definition nochar (c : ascii) (s : str) : bool := forallb (fun x => negb (Ascii.eqb x c)) s.

Lemma nochar_app c a b : nochar c (a ++ b) = nochar c a && nochar c b.
Proof. apply forallb_app. Qed.

Lemma len_app (a b : str) : len (a ++ b) = len a + len b.
Proof. unfold len. rewrite app_length. lia. Qed.
Lemma len_cons c (a : str) : len (c :: a) = 1 + len a.
Proof. unfold len. cbn [List.length]. lia. Qed.
Lemma len_nil : len [] = 0.
Proof. reflexivity. Qed.
Lemma len_nonneg (a : str) : 0 <= len a.
Proof. unfold len. lia. Qed.

(* ---- find / rfind / count of one character ---- *)
Lemma is_prefix_1 c s : is_prefix [c] s = match s with x :: _ => Ascii.eqb c x | [] => false end.
Proof. destruct s as [|x s]; cbn; [reflexivity|]. apply andb_true_r. Qed.

Lemma find_from_hit c : forall a r i, nochar c a = true -> find_from [c] (a ++ c :: r) i = i + len a.
Proof.
  induction a as [|x a IH]; intros r i H.
  - cbn [app find_from]. rewrite is_prefix_1, Ascii.eqb_refl. rewrite len_nil. lia.
  - cbn [nochar forallb] in H. apply andb_true_iff in H as [Hx Ha].
    cbn [app find_from]. rewrite is_prefix_1. rewrite Ascii.eqb_sym. apply negb_true_iff in Hx. rewrite Hx.
    rewrite IH by exact Ha. rewrite len_cons. lia.
Qed.

Lemma find_from_miss c : forall a i, nochar c a = true -> find_from [c] a i = -1.
Proof.
  induction a as [|x a IH]; intros i H.
  - reflexivity.
  - cbn [nochar forallb] in H. apply andb_true_iff in H as [Hx Ha].
    cbn [find_from]. rewrite is_prefix_1. rewrite Ascii.eqb_sym. apply negb_true_iff in Hx. rewrite Hx. apply IH. exact Ha.
Qed.

Lemma find_hit c a r : nochar c a = true -> find [c] (a ++ c :: r) = len a.
Proof. intros H. unfold find. rewrite find_from_hit by exact H. lia. Qed.
Lemma find_miss c a : nochar c a = true -> find [c] a = -1.
Proof. intros H. apply find_from_miss. exact H. Qed.
Lemma contains_hit c a r : nochar c a = true -> contains [c] (a ++ c :: r) = true.
Proof. intros H. unfold contains. rewrite find_hit by exact H. pose proof (len_nonneg a). apply Z.geb_le. lia. Qed.
Lemma contains_miss c a : nochar c a = true -> contains [c] a = false.
Proof. intros H. unfold contains. rewrite find_miss by exact H. reflexivity. Qed.

Lemma rfind_from_miss c : forall r i best, nochar c r = true -> rfind_from [c] r i best = best.
Proof.
  induction r as [|x r IH]; intros i best H.
  - reflexivity.
  - cbn [nochar forallb] in H. apply andb_true_iff in H as [Hx Hr].
    cbn [rfind_from]. rewrite is_prefix_1. rewrite Ascii.eqb_sym. apply negb_true_iff in Hx. rewrite Hx. apply IH. exact Hr.
Qed.

Lemma rfind_from_hit c : forall a r i best, nochar c r = true -> rfind_from [c] (a ++ c :: r) i best = i + len a.
Proof.
  induction a as [|x a IH]; intros r i best H.
  - cbn [app rfind_from]. rewrite is_prefix_1, Ascii.eqb_refl. rewrite rfind_from_miss by exact H. rewrite len_nil. lia.
  - cbn [app rfind_from]. rewrite IH by exact H. rewrite len_cons. lia.
Qed.

Lemma rfind_hit c a r : nochar c r = true -> rfind [c] (a ++ c :: r) = len a.
Proof. intros H. unfold rfind. rewrite rfind_from_hit by exact H. lia. Qed.

Lemma count_char_app c a b : count_char c (a ++ b) = count_char c a + count_char c b.
Proof. induction a as [|x a IH]; cbn [app count_char]; [lia|]. rewrite IH. lia. Qed.
Lemma count_char_nochar c a : nochar c a = true -> count_char c a = 0.
Proof.
  induction a as [|x a IH]; intros H; [reflexivity|].
  cbn [nochar forallb] in H. apply andb_true_iff in H as [Hx Ha]. apply negb_true_iff in Hx.
  cbn [count_char]. rewrite Hx, IH by exact Ha. reflexivity.
Qed.

(* ---- slices ---- *)
Lemma slice_mid (a b c : str) : slice (a ++ b ++ c) (Some (len a)) (Some (len a + len b)) = b.
Proof.
  unfold slice, norm_idx. rewrite !len_app.
  pose proof (len_nonneg a). pose proof (len_nonneg b). pose proof (len_nonneg c).
  destruct (len a <? 0) eqn:E1; [apply Z.ltb_lt in E1; lia|].
  destruct (len a + len b <? 0) eqn:E2; [apply Z.ltb_lt in E2; lia|].
  replace (Z.max 0 (Z.min (len a + (len b + len c)) (len a))) with (len a) by lia.
  replace (Z.max 0 (Z.min (len a + (len b + len c)) (len a + len b))) with (len a + len b) by lia.
  replace (len a + len b - len a) with (len b) by lia.
  unfold len. rewrite !Nat2Z.id.
  rewrite skipn_app, skipn_all, Nat.sub_diag. cbn [skipn app].
  rewrite firstn_app, firstn_all, Nat.sub_diag. cbn [firstn]. apply app_nil_r.
Qed.

Lemma slice_tail (a b : str) : slice (a ++ b) (Some (len a)) None = b.
Proof.
  unfold slice, norm_idx. rewrite !len_app.
  pose proof (len_nonneg a). pose proof (len_nonneg b).
  destruct (len a <? 0) eqn:E1; [apply Z.ltb_lt in E1; lia|].
  replace (Z.max 0 (Z.min (len a + len b) (len a))) with (len a) by lia.
  replace (len a + len b - len a) with (len b) by lia.
  unfold len. rewrite !Nat2Z.id.
  rewrite skipn_app, skipn_all, Nat.sub_diag. cbn [skipn app]. apply firstn_all.
Qed.

Lemma slice_all_from_0 (s : str) : slice s (Some 0) None = s.
Proof. change s with ([] ++ s) at 1. change 0 with (len (@nil ascii)). rewrite slice_tail. reflexivity. Qed.

(* s[len a : -1] of a ++ b ++ [x] *)
Lemma slice_drop_last (a b : str) x : slice (a ++ b ++ [x]) (Some (len a)) (Some (-1)) = b.
Proof.
  unfold slice, norm_idx. rewrite !len_app, len_cons, len_nil.
  pose proof (len_nonneg a). pose proof (len_nonneg b).
  destruct (len a <? 0) eqn:E1; [apply Z.ltb_lt in E1; lia|].
  change (-1 <? 0) with true. cbv iota.
  replace (Z.max 0 (Z.min (len a + (len b + (1 + 0))) (len a))) with (len a) by lia.
  replace (Z.max 0 (Z.min (len a + (len b + (1 + 0))) (-1 + (len a + (len b + (1 + 0)))))) with (len a + len b) by lia.
  replace (len a + len b - len a) with (len b) by lia.
  unfold len. rewrite !Nat2Z.id.
  rewrite skipn_app, skipn_all, Nat.sub_diag. cbn [skipn app].
  rewrite firstn_app, firstn_all, Nat.sub_diag. cbn [firstn]. apply app_nil_r.
Qed.

(* s[: -1] *)
Lemma slice_removelast (b : str) x : slice (b ++ [x]) None (Some (-1)) = b.
Proof.
  unfold slice, norm_idx. rewrite !len_app, len_cons, len_nil.
  pose proof (len_nonneg b).
  change (-1 <? 0) with true. cbv iota.
  replace (Z.max 0 (Z.min (len b + (1 + 0)) (-1 + (len b + (1 + 0)))) - 0) with (len b) by lia.
  unfold len. rewrite Nat2Z.id. cbn [Z.to_nat skipn].
  rewrite firstn_app, firstn_all, Nat.sub_diag. cbn [firstn]. apply app_nil_r.
Qed.

(* ---- indexing ---- *)
Lemma index_0 c (s : str) : index (c :: s) 0 = Some c.
Proof.
  unfold index. rewrite len_cons. pose proof (len_nonneg s). change (0 <? 0) with false. cbv iota.
  destruct (1 + len s <=? 0) eqn:E; [apply Z.leb_le in E; lia|]. reflexivity.
Qed.
Lemma index_1 c d (s : str) : index (c :: d :: s) 1 = Some d.
Proof.
  unfold index. rewrite !len_cons. pose proof (len_nonneg s). change (1 <? 0) with false. cbv iota.
  destruct (1 + (1 + len s) <=? 1) eqn:E; [apply Z.leb_le in E; lia|]. reflexivity.
Qed.
Lemma index_last (s : str) x : index (s ++ [x]) (-1) = Some x.
Proof.
  unfold index. rewrite len_app, len_cons, len_nil. pose proof (len_nonneg s). change (-1 <? 0) with true. cbv iota.
  destruct (-1 + (len s + (1 + 0)) <? 0) eqn:E1; [apply Z.ltb_lt in E1; lia|].
  destruct (len s + (1 + 0) <=? -1 + (len s + (1 + 0))) eqn:E2; [apply Z.leb_le in E2; lia|]. cbn [orb].
  replace (-1 + (len s + (1 + 0))) with (len s) by lia. unfold len. rewrite Nat2Z.id.
  rewrite nth_error_app2 by lia. rewrite Nat.sub_diag. reflexivity.
Qed.

(* ---- strip ---- *)
Definition nonef (f : ascii -> bool) (s : str) : bool := forallb (fun x => negb (f x)) s.

Lemma lstrip_by_id f s : (match s with [] => True | c :: _ => f c = false end) -> lstrip_by f s = s.
Proof. destruct s as [|c s]; intros H; cbn [lstrip_by]; [reflexivity|]. rewrite H. reflexivity. Qed.

(* first and last character are kept: nothing is stripped *)
Lemma strip_by_ends f a m b : f a = false -> f b = false -> strip_by f (a :: m ++ [b]) = a :: m ++ [b].
Proof.
  intros Ha Hb. unfold strip_by, rstrip_by. rewrite (lstrip_by_id f (a :: m ++ [b])) by exact Ha.
  change (a :: m ++ [b]) with ((a :: m) ++ [b]). rewrite rev_app_distr. cbn [rev app].
  rewrite lstrip_by_id by exact Hb.
  change (b :: rev m ++ [a]) with ([b] ++ rev (a :: m)). rewrite rev_app_distr, rev_involutive. reflexivity.
Qed.

Lemma strip_by_nonef f s : nonef f s = true -> strip_by f s = s.
Proof.
  intros H. unfold strip_by, rstrip_by.
  assert (L : forall t, nonef f t = true -> lstrip_by f t = t).
  { intros t Ht. apply lstrip_by_id. destruct t as [|c t]; [exact I|]. cbn [nonef forallb] in Ht.
    apply andb_true_iff in Ht as [Hc _]. apply negb_true_iff in Hc. exact Hc. }
  rewrite (L s) by exact H. rewrite L; [apply rev_involutive|].
  unfold nonef. rewrite forallb_forall. intros x Hx. apply in_rev in Hx. unfold nonef in H. rewrite forallb_forall in H. apply H. exact Hx.
Qed.

(* a leading run of one stripped character in front of a text none of whose characters is stripped *)
Lemma strip_by_lead f c s : f c = true -> nonef f s = true -> strip_by f (c :: s) = s.
Proof.
  intros Hc Hs. unfold strip_by. cbn [lstrip_by]. rewrite Hc.
  assert (E : lstrip_by f s = s).
  { apply lstrip_by_id. destruct s as [|x s]; [exact I|]. cbn [nonef forallb] in Hs.
    apply andb_true_iff in Hs as [Hx _]. apply negb_true_iff in Hx. exact Hx. }
  rewrite E. fold (strip_by f s). unfold rstrip_by.
  assert (E2 : lstrip_by f (rev s) = rev s).
  { apply lstrip_by_id. destruct (rev s) as [|x t] eqn:Er; [exact I|].
    unfold nonef in Hs. rewrite forallb_forall in Hs. specialize (Hs x).
    assert (In x s) by (apply in_rev; rewrite Er; left; reflexivity). specialize (Hs H). apply negb_true_iff in Hs. exact Hs. }
  rewrite E2. apply rev_involutive.
Qed.

(* ---- split on whitespace ---- *)
Definition nows (s : str) : bool := nonef is_ws s.
Definition sp : ascii := ch " ".

Lemma split_ws_aux_word : forall w rest cur, nows w = true -> split_ws_aux (w ++ rest) cur = split_ws_aux rest (rev w ++ cur).
Proof.
  induction w as [|c w IH]; intros rest cur H; [reflexivity|].
  cbn [nows nonef forallb] in H. apply andb_true_iff in H as [Hc Hw]. apply negb_true_iff in Hc.
  cbn [app split_ws_aux]. rewrite Hc. rewrite IH by exact Hw. cbn [rev]. rewrite <- app_assoc. reflexivity.
Qed.

(* words joined by single blanks split back into the words *)
Fixpoint join_sp (ws : list str) : str :=
  match ws with
  | [] => []
  | [w] => w
  | w :: ws' => w ++ sp :: join_sp ws'
  end.

Lemma split_ws_join : forall ws, Forall (fun w => nows w = true /\ w <> []) ws -> split_ws (join_sp ws) = ws.
Proof.
  unfold split_ws.
  induction ws as [|w ws IH]; intros H; [reflexivity|].
  inversion H as [|? ? [Hw Hne] Hr]; subst.
  destruct ws as [|w2 ws'].
  - cbn [join_sp]. rewrite <- (app_nil_r w) at 1. rewrite split_ws_aux_word by exact Hw. cbn [split_ws_aux]. rewrite app_nil_r.
    destruct (rev w) eqn:Er; [apply (f_equal (@rev ascii)) in Er; rewrite rev_involutive in Er; cbn in Er; contradiction|].
    rewrite <- Er, rev_involutive. reflexivity.
  - change (join_sp (w :: w2 :: ws')) with (w ++ sp :: join_sp (w2 :: ws')).
    rewrite split_ws_aux_word by exact Hw. cbn [split_ws_aux]. change (is_ws sp) with true. cbv iota. rewrite app_nil_r.
    destruct (rev w) eqn:Er; [apply (f_equal (@rev ascii)) in Er; rewrite rev_involutive in Er; cbn in Er; contradiction|].
    rewrite <- Er, rev_involutive. f_equal. apply IH. exact Hr.
Qed.

(* the printer writes every word followed by a blank and cuts the last blank *)
Lemma concat_sp_join : forall (ws : list str), ws <> [] ->
  List.concat (map (fun w => w ++ [sp]) ws) = join_sp ws ++ [sp].
Proof.
  induction ws as [|w ws IH]; intros H; [contradiction|].
  destruct ws as [|w2 ws'].
  - cbn. rewrite app_nil_r. reflexivity.
  - change (List.concat (map (fun w => w ++ [sp]) (w :: w2 :: ws'))) with ((w ++ [sp]) ++ List.concat (map (fun w => w ++ [sp]) (w2 :: ws'))).
    rewrite IH by discriminate. change (join_sp (w :: w2 :: ws')) with (w ++ sp :: join_sp (w2 :: ws')).
    rewrite <- !app_assoc. reflexivity.
Qed.

(* ---- the decimal printer read back ---- *)
Lemma digit_char_facts k : (k < 10)%nat ->
  is_digit (ascii_of_nat (k + 48)) = true /\ digit_val (ascii_of_nat (k + 48)) = Z.of_nat k /\
  is_ws (ascii_of_nat (k + 48)) = false /\ Ascii.eqb (ascii_of_nat (k + 48)) (ch "-") = false /\
  Ascii.eqb (ascii_of_nat (k + 48)) (ch "+") = false /\ Ascii.eqb (ascii_of_nat (k + 48)) (ch "_") = false.
Proof.
  intros H. do 10 (destruct k as [|k]; [repeat split; reflexivity|]). lia.
Qed.

Definition all_digits (s : str) : bool := forallb is_digit s.

(* pos_digits_aux writes the decimal digits of n in front of acc; reading digits in front of a text that does not
   continue the number gives back n *)
Lemma pos_digits_step f n acc : pos_digits_aux (S f) n acc =
  if n <? 10 then ascii_of_nat (Z.to_nat (n mod 10) + 48) :: acc else pos_digits_aux f (n / 10) (ascii_of_nat (Z.to_nat (n mod 10) + 48) :: acc).
Proof. reflexivity. Qed.

Lemma pos_digits_spec : forall f n acc, 0 <= n < 2 ^ Z.of_nat (S f) ->
  exists ds, pos_digits_aux (S f) n acc = ds ++ acc /\ ds <> [] /\ all_digits ds = true /\
    forall rest a k, digitpart_aux (ds ++ rest) a k = digitpart_aux rest (a * 10 ^ len ds + n) (List.length ds + k)%nat.
Proof.
  assert (One : forall f n acc, 0 <= n < 10 ->
    exists ds, pos_digits_aux (S f) n acc = ds ++ acc /\ ds <> [] /\ all_digits ds = true /\
      forall rest a k, digitpart_aux (ds ++ rest) a k = digitpart_aux rest (a * 10 ^ len ds + n) (List.length ds + k)%nat).
  { intros f n acc Hn. rewrite pos_digits_step.
    assert (Hk : (Z.to_nat (n mod 10) < 10)%nat) by (pose proof (Z.mod_pos_bound n 10 ltac:(lia)); lia).
    destruct (digit_char_facts _ Hk) as (D1 & D2 & _).
    set (d := ascii_of_nat (Z.to_nat (n mod 10) + 48)) in *.
    destruct (n <? 10) eqn:E; [|apply Z.ltb_ge in E; lia].
    exists [d]. split; [reflexivity|]. split; [discriminate|]. split; [cbn; rewrite D1; reflexivity|].
    intros rest a k. cbn [app digitpart_aux]. rewrite D1, D2. rewrite Z.mod_small by lia. rewrite Z2Nat.id by lia.
    change (len [d]) with 1. f_equal; try lia. }
  induction f as [|f IH]; intros n acc Hn.
  - apply One. cbn in Hn. lia.
  - destruct (Z_lt_ge_dec n 10) as [L|G]; [apply One; lia|].
    rewrite pos_digits_step.
    assert (Hk : (Z.to_nat (n mod 10) < 10)%nat) by (pose proof (Z.mod_pos_bound n 10 ltac:(lia)); lia).
    destruct (digit_char_facts _ Hk) as (D1 & D2 & _).
    set (d := ascii_of_nat (Z.to_nat (n mod 10) + 48)) in *.
    destruct (n <? 10) eqn:E; [apply Z.ltb_lt in E; lia|].
    assert (Hn' : 0 <= n / 10 < 2 ^ Z.of_nat (S f)).
    { split; [apply Z.div_pos; lia|]. rewrite (Nat2Z.inj_succ (S f)), Z.pow_succ_r in Hn by lia.
      apply Z.div_lt_upper_bound; lia. }
    destruct (IH (n / 10) (d :: acc) Hn') as (ds & E1 & Hne & Hd & Hread).
    exists (ds ++ [d]). split; [rewrite E1, <- app_assoc; reflexivity|]. split; [destruct ds; discriminate|].
    split; [unfold all_digits; rewrite forallb_app; cbn; rewrite D1; unfold all_digits in Hd; rewrite Hd; reflexivity|].
    intros rest a k. rewrite <- app_assoc. rewrite Hread. cbn [app digitpart_aux]. rewrite D1, D2.
    rewrite Z2Nat.id by (pose proof (Z.mod_pos_bound n 10 ltac:(lia)); lia).
    rewrite len_app. change (len [d]) with 1. rewrite app_length. cbn [List.length].
    rewrite Z.pow_add_r by (pose proof (len_nonneg ds); lia). f_equal; [|lia].
    pose proof (Z.div_mod n 10 ltac:(lia)). lia.
Qed.

Lemma log2_fuel n : 0 <= n -> 0 <= n < 2 ^ Z.of_nat (S (Z.to_nat (Z.log2 n))).
Proof.
  intros H. split; [exact H|]. rewrite Nat2Z.inj_succ, Z2Nat.id by apply Z.log2_nonneg.
  destruct (Z.eq_dec n 0) as [->|Hn]; [cbn; lia|]. apply Z.log2_spec. lia.
Qed.

Lemma all_digits_nows ds : all_digits ds = true -> nows ds = true.
Proof.
  unfold all_digits, nows, nonef. rewrite !forallb_forall. intros H x Hx. specialize (H x Hx).
  unfold is_digit in H. unfold is_ws. apply andb_true_iff in H as [H1 H2]. apply Nat.leb_le in H1, H2.
  apply negb_true_iff. repeat (apply orb_false_iff; split).
  - apply Nat.eqb_neq. lia.
  - apply andb_false_iff. right. apply Nat.leb_gt. lia.
  - apply andb_false_iff. right. apply Nat.leb_gt. lia.
Qed.

Lemma all_digits_head ds : all_digits ds = true -> ds <> [] -> exists c r, ds = c :: r /\ is_digit c = true.
Proof. destruct ds as [|c r]; intros H Hne; [contradiction|]. cbn in H. apply andb_true_iff in H as [H _]. eauto. Qed.

Lemma digit_not_sign c : is_digit c = true -> Ascii.eqb c (ch "-") = false /\ Ascii.eqb c (ch "+") = false.
Proof.
  unfold is_digit. intros H. apply andb_true_iff in H as [H1 H2]. apply Nat.leb_le in H1, H2.
  split; apply Ascii.eqb_neq; intros ->; cbn in *; lia.
Qed.

Lemma strip_nows s : nows s = true -> strip s = s.
Proof. apply strip_by_nonef. Qed.

Theorem py_int_z_to_str z : py_int (z_to_str z) = Some z.
Proof.
  unfold z_to_str. destruct (z <? 0) eqn:Ez.
  - apply Z.ltb_lt in Ez.
    destruct (pos_digits_spec _ (- z) [] (log2_fuel (- z) ltac:(lia))) as (ds & E & Hne & Hd & Hread).
    rewrite E, app_nil_r. unfold py_int.
    assert (Es : strip (ch "-" :: ds) = ch "-" :: ds).
    { apply strip_nows. cbn [nows nonef forallb]. change (is_ws (ch "-")) with false. cbn [negb andb]. apply all_digits_nows. exact Hd. }
    rewrite Es. cbn [split_sign]. change (Ascii.eqb (ch "-") (ch "-")) with true. cbv iota.
    unfold digitpart. rewrite <- (app_nil_r ds). rewrite Hread. cbn [digitpart_aux].
    destruct ds as [|c r]; [contradiction|]. cbn [List.length Nat.add]. f_equal; try lia.
  - apply Z.ltb_ge in Ez.
    destruct (pos_digits_spec _ z [] (log2_fuel z Ez)) as (ds & E & Hne & Hd & Hread).
    rewrite E, app_nil_r. unfold py_int.
    rewrite (strip_nows ds (all_digits_nows ds Hd)).
    destruct (all_digits_head ds Hd Hne) as (c & r & -> & Hc). destruct (digit_not_sign c Hc) as [N1 N2].
    cbn [split_sign]. rewrite N1, N2.
    unfold digitpart. rewrite <- (app_nil_r (c :: r)). rewrite Hread. cbn [digitpart_aux List.length Nat.add]. f_equal; try lia.
Qed.

(* the printed integer contains none of the characters the descriptor parser looks for *)
Definition plain_char (c : ascii) : bool :=
  negb (Ascii.eqb c (ch "|")) && negb (Ascii.eqb c (ch "[")) && negb (Ascii.eqb c (ch "]")) && negb (is_ws c).
Definition plain (s : str) : bool := forallb plain_char s.

Lemma digit_plain c : is_digit c = true -> plain_char c = true.
Proof.
  unfold is_digit, plain_char, is_ws. intros H. apply andb_true_iff in H as [H1 H2]. apply Nat.leb_le in H1, H2.
  repeat (apply andb_true_iff; split); apply negb_true_iff.
  - apply Ascii.eqb_neq; intros ->; cbn in *; lia.
  - apply Ascii.eqb_neq; intros ->; cbn in *; lia.
  - apply Ascii.eqb_neq; intros ->; cbn in *; lia.
  - repeat (apply orb_false_iff; split); [apply Nat.eqb_neq; lia|apply andb_false_iff; right; apply Nat.leb_gt; lia|apply andb_false_iff; right; apply Nat.leb_gt; lia].
Qed.

Lemma z_to_str_plain z : plain (z_to_str z) = true.
Proof.
  unfold z_to_str. destruct (z <? 0) eqn:Ez.
  - apply Z.ltb_lt in Ez.
    destruct (pos_digits_spec _ (- z) [] (log2_fuel (- z) ltac:(lia))) as (ds & E & _ & Hd & _).
    rewrite E, app_nil_r. cbn [plain forallb]. change (plain_char (ch "-")) with true. cbn [andb].
    unfold all_digits in Hd. rewrite forallb_forall in Hd. apply forallb_forall. intros x Hx. apply digit_plain, Hd, Hx.
  - apply Z.ltb_ge in Ez.
    destruct (pos_digits_spec _ z [] (log2_fuel z Ez)) as (ds & E & _ & Hd & _).
    rewrite E, app_nil_r. unfold all_digits in Hd. rewrite forallb_forall in Hd. apply forallb_forall. intros x Hx. apply digit_plain, Hd, Hx.
Qed.

Lemma plain_nochar s c : plain_char c = false -> plain s = true -> nochar c s = true.
Proof.
  intros Hc H. unfold plain in H. rewrite forallb_forall in H. apply forallb_forall. intros x Hx. specialize (H x Hx).
  apply negb_true_iff. apply Ascii.eqb_neq. intros ->. congruence.
Qed.
Lemma plain_nows s : plain s = true -> nows s = true.
Proof.
  intros H. unfold plain in H. rewrite forallb_forall in H. apply forallb_forall. intros x Hx. specialize (H x Hx).
  unfold plain_char in H. apply andb_true_iff in H as [_ H]. exact H.
Qed.
Lemma plain_app a b : plain (a ++ b) = plain a && plain b.
Proof. apply forallb_app. Qed.
