(* Facts about the descriptor parser and the token model used by C02 / C15. *)
From Coq Require Import List ZArith QArith Ascii String Bool Lia.
From GBS Require Import Model.PyStr Model.Num Model.Bond Model.Token Src.SrcBond Proofs.BondP.
Import ListNotations.
Open Scope Z_scope.

(* the text the descriptor parser actually works on (bond.py:52-53) *)
Definition raw_norm (raw pre : str) : str := if (len pre =? 0) then slice raw (Some (find (lit "[") raw)) None else raw.
Definition weight_text (raw : str) : str := slice raw (Some (find (lit "|") raw)) (Some (rfind (lit "|") raw)).

(* no weight text: weight 1, no list.  A list: the weight is the sum of the list.  One number: that number. *)
Theorem parse_descr_weight raw n pre atom d :
  parse_descr raw n pre atom = OK d -> d_sym d <> [] ->
  (contains (lit "|") (raw_norm raw pre) = false -> d_weight d = Fin 1 /\ d_trans d = None) /\
  (forall l, d_trans d = Some l -> d_weight d = num_sum l /\
             map_opt py_float (split_ws (strip_chars (lit "|") (weight_text (raw_norm raw pre)))) = Some l) /\
  (contains (lit "|") (raw_norm raw pre) = true -> d_trans d = None ->
     map_opt py_float (split_ws (strip_chars (lit "|") (weight_text (raw_norm raw pre)))) = Some [d_weight d]).
Proof.
  unfold parse_descr. destruct (str_eqb raw (lit "[]")) eqn:E0.
  { intros H; injection H as <-. cbn [d_sym]. congruence. }
  fold (raw_norm raw pre). set (r := raw_norm raw pre).
  destruct (index r 0) as [c0|]; [|discriminate]. destruct (index r (-1)) as [cl|]; [|discriminate].
  destruct (negb _); [discriminate|]. destruct (index r 1) as [c1|]; [|discriminate].
  destruct (negb (in_set _ c1)); [discriminate|]. destruct (_ || _)%bool; [discriminate|].
  match goal with |- context [Bond.bind ?x _] => destruct x as [id|]; cbn [Bond.bind]; [|discriminate] end.
  destruct (contains (lit "|") r) eqn:Ec.
  - destruct (negb (count_char (ch "|") r =? 2)); [cbn [Bond.bind]; discriminate|].
    destruct (negb (str_eqb _ (lit "]"))); [cbn [Bond.bind]; discriminate|].
    fold (weight_text r).
    destruct (map_opt py_float (split_ws (strip_chars (lit "|") (weight_text r)))) as [l|] eqn:El; [|cbn [Bond.bind]; discriminate].
    destruct l as [|w [|w2 l']]; cbn [Bond.bind fst snd]; [discriminate| |]; (destruct (_ || _)%bool; [discriminate|]); intros H; injection H as <-; intros _; cbn [d_weight d_trans].
    + split; [discriminate|]. split; [discriminate|]. intros _ _. reflexivity.
    + split; [discriminate|]. split; [intros l H; injection H as <-; split; reflexivity|discriminate].
  - cbn [Bond.bind fst snd]. destruct (_ || _)%bool; [discriminate|]. intros H; injection H as <-; intros _; cbn [d_weight d_trans].
    split; [intros _; split; reflexivity|]. split; [discriminate|discriminate].
Qed.

(* ---- token model: every descriptor sits on an atom of the token ---- *)
Section TokInv.
  Variable valid_atom : str -> bool.

  Definition stack_ok (n : Z) (st : list Z) : Prop := Forall (fun x => -1 <= x < Z.max n 0 \/ x = -1) st.
  Definition bd_ok (n : Z) (d : descr) : Prop := d_sym d = [] \/ exists a, d_atom d = Some a /\ 0 <= a /\ (a < n \/ a = 0).

  Lemma pushpop_ok n : forall s st st', stack_ok n st -> pushpop s st = OK st' -> stack_ok n st'.
  Proof.
    induction s as [|c s IH]; intros st st' H E; cbn [pushpop] in E; [injection E as <-; exact H|].
    destruct (Ascii.eqb c (ch "(")).
    - destruct st as [|top st0]; [discriminate|]. eapply IH; [|exact E]. inversion H; subst. constructor; assumption.
    - destruct (Ascii.eqb c (ch ")")).
      + destruct st as [|top st0]; [discriminate|]. eapply IH; [|exact E]. inversion H; assumption.
      + eapply IH; eauto.
  Qed.

  Lemma stack_ok_mono n m st : n <= m -> stack_ok n st -> stack_ok m st.
  Proof. intros L H. eapply Forall_impl; [|exact H]. intros x [Hx|Hx]; [left; lia|right; exact Hx]. Qed.
  Lemma bd_ok_mono n m d : n <= m -> bd_ok n d -> bd_ok m d.
  Proof. intros L [H|(a & H1 & H2 & H3)]; [left; exact H|right; exists a; repeat split; auto; lia]. Qed.

  Record PInv (s : pstate) : Prop := {
    pi_n : 0 <= p_natoms s;
    pi_stack : stack_ok (p_natoms s) (p_stack s);
    pi_bds : Forall (bd_ok (p_natoms s)) (p_bds s);
    pi_atoms : p_natoms s = Z.of_nat (List.length (atoms_of (rev (p_done s))))
  }.

  Lemma atoms_of_app a b : atoms_of (a ++ b)%list = (atoms_of a ++ atoms_of b)%list.
  Proof. unfold atoms_of. apply flat_map_app. Qed.

  Lemma bind_inv off : forall fuel todo s s', PInv s -> bind fuel off todo s = OK s' -> PInv s'.
  Proof.
    induction fuel as [|f IH]; intros todo s s' Hs E; cbn [bind] in E; [discriminate|].
    destruct todo as [|[a|el|d] rest]; [injection E as <-; exact Hs| | |].
    - destruct (p_stack s) as [|top st0] eqn:Est; [discriminate|]. eapply IH; [|exact E].
      destruct Hs as [Hn Hst Hb Ha]. constructor; cbn [p_natoms p_stack p_bds p_done].
      + lia.
      + rewrite Est in Hst. inversion Hst; subst. constructor; [left; lia|]. eapply stack_ok_mono; [|eassumption]. lia.
      + eapply Forall_impl; [|exact Hb]. intros d. apply bd_ok_mono. lia.
      + cbn [rev]. rewrite atoms_of_app, app_length. cbn. lia.
    - destruct (has_descr_char el).
      + destruct (find (lit "[") el <? 0); [discriminate|]. destruct (find (lit "]") el <=? 0); [discriminate|].
        destruct (pushpop _ (p_stack s)) as [st|] eqn:Ep; cbn [Bond.bind] in E; [|discriminate].
        destruct (contains (lit ".") _); [discriminate|].
        destruct st as [|top st0] eqn:Est; [discriminate|].
        destruct (_ && _ && _ && _)%bool; [discriminate|].
        match type of E with context [parse_descr ?bt ?nn ?pre ?aa] => destruct (parse_descr bt nn pre aa) as [bd|] eqn:Ed end; cbn [Bond.bind] in E; [|discriminate].
        eapply IH; [|exact E]. destruct Hs as [Hn Hst Hb Ha].
        assert (Hst' : stack_ok (p_natoms s) (top :: st0)) by (eapply pushpop_ok; eauto).
        constructor; cbn [p_natoms p_stack p_bds p_done].
        * exact Hn.
        * exact Hst'.
        * constructor; [|exact Hb]. apply parse_descr_shape in Ed as (_ & _ & _ & _ & Hne).
          destruct (d_sym bd) as [|c0 r0] eqn:Es; [left; exact Es|right].
          destruct Hne as [_ Hat]; [discriminate|]. eexists. split; [exact Hat|].
          inversion Hst' as [|x l Hx _]; subst. destruct (top <? 0) eqn:Et.
          -- split; [lia|right; reflexivity].
          -- apply Z.ltb_ge in Et. destruct Hx as [Hx|Hx]; [|lia]. split; [lia|]. left. lia.
        * rewrite Ha. f_equal. f_equal.
          destruct (slice el None _) eqn:EA; cbn [rev]; rewrite ?atoms_of_app; cbn; rewrite ?app_nil_r; reflexivity.
      + destruct (pushpop el (p_stack s)) as [st|] eqn:Ep; cbn [Bond.bind] in E; [|discriminate].
        eapply IH; [|exact E]. destruct Hs as [Hn Hst Hb Ha]. constructor; cbn [p_natoms p_stack p_bds p_done]; auto.
        * eapply pushpop_ok; eauto.
        * cbn [rev]. rewrite atoms_of_app. cbn. rewrite app_nil_r. exact Ha.
    - eapply IH; [|exact E]. destruct Hs as [Hn Hst Hb Ha]. constructor; cbn [p_natoms p_stack p_bds p_done]; auto.
      cbn [rev]. rewrite atoms_of_app. cbn. rewrite app_nil_r. exact Ha.
  Qed.

  (* every bond descriptor of an accepted token is attached to one of its atoms (atom 0 for a descriptor-only token) *)
  Theorem parse_token_descrs_on_atoms text off t :
    parse_token valid_atom text off = OK t ->
    Forall (fun d => d_sym d = [] \/ exists a, d_atom d = Some a /\ 0 <= a /\ (a < Z.of_nat (List.length (k_atoms t)) \/ a = 0)) (k_bds t).
  Proof.
    unfold parse_token. destruct (off <? 0); [discriminate|]. destruct (negb _); [discriminate|].
    destruct (scan _ _ _ _ _) as [els|]; cbn [Bond.bind]; [|discriminate].
    match goal with |- context [Token.bind ?f ?o ?e ?s0] => destruct (Token.bind f o e s0) as [s|] eqn:Eb end; cbn [Bond.bind]; [|discriminate].
    intros H; injection H as <-. cbn [k_bds k_atoms].
    assert (I0 : PInv {| p_done := []; p_natoms := 0; p_stack := [-1]; p_bds := [] |}).
    { constructor; cbn; try lia; try constructor; auto. }
    destruct (bind_inv _ _ _ _ _ I0 Eb) as [Hn Hst Hb Ha].
    apply Forall_rev. rewrite <- Ha. exact Hb.
  Qed.
End TokInv.

(* a parsed descriptor never carries an empty transition list (an empty weight specification is rejected) *)
Theorem parse_descr_trans_nonempty raw n pre atom d : parse_descr raw n pre atom = OK d -> d_trans d <> Some [].
Proof.
  unfold parse_descr. destruct (str_eqb raw (lit "[]")).
  { intros H; injection H as <-. cbn [d_trans]. discriminate. }
  fold (raw_norm raw pre). set (r := raw_norm raw pre).
  destruct (index r 0) as [c0|]; [|discriminate]. destruct (index r (-1)) as [cl|]; [|discriminate].
  destruct (negb _); [discriminate|]. destruct (index r 1) as [c1|]; [|discriminate].
  destruct (negb (in_set _ c1)); [discriminate|]. destruct (_ || _)%bool; [discriminate|].
  match goal with |- context [Bond.bind ?x _] => destruct x as [id|]; cbn [Bond.bind]; [|discriminate] end.
  destruct (contains (lit "|") r).
  - destruct (negb (count_char (ch "|") r =? 2)); [cbn [Bond.bind]; discriminate|].
    destruct (negb (str_eqb _ (lit "]"))); [cbn [Bond.bind]; discriminate|].
    destruct (map_opt py_float _) as [l|]; [|cbn [Bond.bind]; discriminate].
    destruct l as [|w [|w2 l']]; cbn [Bond.bind fst snd]; [discriminate| |]; (destruct (_ || _)%bool; [discriminate|]); intros H; injection H as <-; cbn [d_trans]; discriminate.
  - cbn [Bond.bind fst snd]. destruct (_ || _)%bool; [discriminate|]. intros H; injection H as <-. cbn [d_trans]. discriminate.
Qed.
