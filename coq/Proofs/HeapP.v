(* C10: generation never writes a cell owned by a parsed object -- for every script of store operations. *)
From Coq Require Import List ZArith Bool Arith Lia.
From GBS Require Import Model.PyStr Model.Num Model.Bond Model.Heap.
Import ListNotations.
Open Scope nat_scope.

Lemma alloc_copy_spec st a st' a' : alloc_copy st a = (st', a') ->
  (forall k, k < List.length st -> nth_error st' k = nth_error st k) /\ List.length st <= List.length st' /\
  (a' < List.length st -> a' = a /\ st' = st).
Proof.
  unfold alloc_copy. destruct (nth_error st a) as [d|] eqn:E; intros H; injection H as <- <-.
  - split; [intros k Hk; rewrite nth_error_app1 by exact Hk; reflexivity|]. split; [rewrite app_length; lia|lia].
  - split; [reflexivity|]. split; [lia|auto].
Qed.

(* cells below [base] (those owned by parsed objects) keep their content; fresh addresses are >= base or were passed in dangling *)
Lemma copy_all_frame : forall l st st' l', copy_all st l = (st', l') ->
  (forall k, k < List.length st -> nth_error st' k = nth_error st k) /\ List.length st <= List.length st' /\
  (forall base, base <= List.length st -> Forall (fun a => a < List.length st) l -> Forall (fun a => base <= a) l').
Proof.
  induction l as [|a r IH]; intros st st' l' H; cbn [copy_all] in H.
  - injection H as <- <-. repeat split; auto.
  - destruct (alloc_copy st a) as [st1 a'] eqn:E1. destruct (copy_all st1 r) as [st2 r'] eqn:E2. injection H as <- <-.
    destruct (alloc_copy_spec _ _ _ _ E1) as (F1 & L1 & D1). destruct (IH _ _ _ E2) as (F2 & L2 & G2).
    split; [intros k Hk; rewrite F2 by lia; apply F1; exact Hk|]. split; [lia|].
    intros base Hb Hl. inversion Hl as [|x y Hx Hy]; subst. constructor.
    + unfold alloc_copy in E1. destruct (nth_error st a) eqn:En; injection E1 as <- <-; [lia|]. apply nth_error_None in En. lia.
    + apply G2; [lia|]. eapply Forall_impl; [|exact Hy]. intros z Hz. cbv beta in *. lia.
Qed.

Lemma write_at_frame : forall st a w t k, k <> a -> nth_error (write_at st a w t) k = nth_error st k.
Proof.
  induction st as [|d r IH]; intros a w t k H; [destruct a; reflexivity|].
  destruct a as [|a']; destruct k as [|k']; cbn [write_at nth_error]; try reflexivity; [congruence|]. apply IH. congruence.
Qed.
Lemma write_at_length : forall st a w t, List.length (write_at st a w t) = List.length st.
Proof. induction st as [|d r IH]; intros [|a] w t; cbn [write_at List.length]; auto. Qed.

Lemma drop_nth_Forall {A} (P : A -> Prop) n l : Forall P l -> Forall P (drop_nth n l).
Proof. revert n; induction l as [|x l IH]; intros [|n] H; cbn [drop_nth]; auto; inversion H; subst; auto. Qed.

(* invariant: the molecule's open descriptors are cells allocated after parsing *)
Definition HInv (base : nat) (s : store * hmol) : Prop :=
  base <= List.length (fst s) /\ Forall (fun a => base <= a /\ a < List.length (fst s)) (snd s).

Definition tok_ok (base : nat) (o : hop) : Prop :=
  match o with HNew tok | HAttach _ tok _ => Forall (fun a => a < base) tok | HSetWt _ _ => True end.

Lemma copy_all_fresh : forall l st st' l', copy_all st l = (st', l') -> Forall (fun a => a < List.length st) l ->
  Forall (fun a => List.length st <= a /\ a < List.length st') l'.
Proof.
  induction l as [|a r IH]; intros st st' l' H Hl; cbn [copy_all] in H; [injection H as <- <-; constructor|].
  destruct (alloc_copy st a) as [st1 a'] eqn:E1. destruct (copy_all st1 r) as [st2 r'] eqn:E2. injection H as <- <-.
  inversion Hl as [|x y Hx Hy]; subst.
  unfold alloc_copy in E1. destruct (nth_error st a) eqn:En; [|apply nth_error_None in En; lia]. injection E1 as <- <-.
  destruct (copy_all_frame _ _ _ _ E2) as (_ & L2 & _). rewrite app_length in *. cbn [List.length] in *.
  constructor; [lia|]. assert (IHr := IH _ _ _ E2). rewrite app_length in IHr. cbn [List.length] in IHr.
  eapply Forall_impl; [|apply IHr; eapply Forall_impl; [|exact Hy]; intros z Hz; cbv beta in *; lia]. intros z [Hz1 Hz2]. cbv beta in *. lia.
Qed.

Lemma hstep_inv base s o : HInv base s -> tok_ok base o ->
  HInv base (hstep s o) /\ (forall k, k < base -> nth_error (fst (hstep s o)) k = nth_error (fst s) k).
Proof.
  destruct s as [st m]. intros [Hb Hm] Ht. cbn [fst snd] in *. destruct o as [tok|i tok j|w t]; cbn [hstep tok_ok] in *.
  - destruct (copy_all st tok) as [st' l'] eqn:E. destruct (copy_all_frame _ _ _ _ E) as (F & L & _).
    assert (Hlt : Forall (fun a => a < List.length st) tok) by (eapply Forall_impl; [|exact Ht]; intros z Hz; cbn in *; lia).
    pose proof (copy_all_fresh _ _ _ _ E Hlt) as Fr. split; [|intros k Hk; apply F; lia].
    split; cbn [fst snd]; [lia|]. eapply Forall_impl; [|exact Fr]. intros z [H1 H2]. lia.
  - destruct (copy_all st tok) as [st1 other] eqn:E1. destruct (copy_all st1 other) as [st2 other2] eqn:E2.
    destruct (copy_all_frame _ _ _ _ E1) as (F1 & L1 & _). destruct (copy_all_frame _ _ _ _ E2) as (F2 & L2 & _).
    assert (Hlt : Forall (fun a => a < List.length st) tok) by (eapply Forall_impl; [|exact Ht]; intros z Hz; cbn in *; lia).
    pose proof (copy_all_fresh _ _ _ _ E1 Hlt) as Fr1.
    assert (Hlt2 : Forall (fun a => a < List.length st1) other) by (eapply Forall_impl; [|exact Fr1]; intros z [H1 H2]; exact H2).
    pose proof (copy_all_fresh _ _ _ _ E2 Hlt2) as Fr2.
    split; [|intros k Hk; cbn [fst]; rewrite F2 by lia; apply F1; lia].
    split; cbn [fst snd]; [lia|]. apply Forall_app. split; apply drop_nth_Forall.
    + eapply Forall_impl; [|exact Hm]. intros z [H1 H2]. lia.
    + eapply Forall_impl; [|exact Fr2]. intros z [H1 H2]. lia.
  - destruct m as [|a r]; [split; [split; auto|auto]|].
    inversion Hm as [|x y [Ha1 Ha2] Hy]; subst. split.
    + split; cbn [fst snd]; rewrite write_at_length; [exact Hb|exact Hm].
    + intros k Hk. cbn [fst]. apply write_at_frame. lia.
Qed.

(* for EVERY script of generation steps on tokens owned by parsed objects: the cells of the parsed objects are never written *)
Theorem generation_frame base : forall ops s, HInv base s -> Forall (tok_ok base) ops ->
  forall k, k < base -> nth_error (fst (hrun s ops)) k = nth_error (fst s) k.
Proof.
  unfold hrun. induction ops as [|o ops IH]; intros s Hs Ho k Hk; cbn [fold_left]; [reflexivity|].
  inversion Ho as [|x y Hx Hy]; subst. destruct (hstep_inv base s o Hs Hx) as [H1 H2].
  rewrite (IH (hstep s o) H1 Hy k Hk). apply H2. exact Hk.
Qed.
