(* Tie T for the mixture bookkeeping: Src/SrcSys.v holds the decision expressions of system.py:_estimate_system_molecular_weight
   and of the two linked setters of mixture.py as REGENERATED from the current source (the statement skeleton around them is
   checked by the translator).  Here the three functions are written once more over those regenerated predicates, following
   the skeleton statement by statement, and proved equal to the hand model of Model/Sys.v that the C12 theorems are about.
   A changed comparison, constant, truth test or conjunct in the source makes one of these equalities fail. *)
From Coq Require Import List ZArith QArith Qabs Bool String Lia.
From GBS Require Import Model.PyStr Model.Num Model.Bond Model.Sys Src.SrcSys.
Import ListNotations.
Open Scope Q_scope.

Definition getq (o : option Q) : Q := match o with Some q => q | None => 0 end.

(* Mixture.system_mass setter over the regenerated guards *)
Definition set_sys_src (m : mix) (mass : Q) : result mix :=
  if sys_rejected mass then Err ERuntime "negative system mass" else
  if sys_abs_from_rel m then OK {| x_abs := Some (getq (x_rel m) / 100 * mass); x_rel := x_rel m; x_sys := Some mass |}
  else if sys_rel_from_abs m then
    (if Qeq_bool mass 0 then Err EZeroDiv "100*abs/0"
     else OK {| x_abs := x_abs m; x_rel := Some (100 * getq (x_abs m) / mass); x_sys := Some mass |})
  else OK {| x_abs := x_abs m; x_rel := x_rel m; x_sys := Some mass |}.

Theorem set_sys_is_source m mass : set_sys_src m mass = set_sys m mass.
Proof.
  unfold set_sys_src, set_sys, sys_rejected, sys_abs_from_rel, sys_rel_from_abs.
  destruct (Qlt_bool mass 0); [reflexivity|].
  destruct m as [a r s]; cbn [x_abs x_rel x_sys].
  destruct r as [r|]; cbn [negb getq]; [reflexivity|].
  destruct a as [a|]; cbn [negb getq]; [destruct (Qeq_bool mass 0); reflexivity|reflexivity].
Qed.

(* Mixture.relative_mass setter *)
Definition set_rel_src (m : mix) (f : Q) : result mix :=
  if rel_rejected f then Err ERuntime "invalid fraction" else
  let m' := {| x_abs := x_abs m; x_rel := Some f; x_sys := x_sys m |} in
  if rel_derives m' then (if Qeq_bool f 0 then Err EZeroDiv "abs/(0/100)" else set_sys_src m' (getq (x_abs m) / (f / 100))) else OK m'.

Theorem set_rel_is_source m f : set_rel_src m f = set_rel m f.
Proof.
  unfold set_rel_src, set_rel, rel_rejected, rel_derives.
  destruct (Qlt_bool f 0 || Qlt_bool 100 f)%bool; [reflexivity|].
  destruct m as [a r s]; cbn [x_abs x_rel x_sys otruthy].
  destruct a as [a|]; cbn [otruthy getq]; [|reflexivity].
  destruct (truthy a); [|reflexivity]. destruct (Qeq_bool f 0); [reflexivity|]. apply set_sys_is_source.
Qed.

(* what the counting loop adds up *)
Definition abs_known_src (c : comp) : option Q :=
  match c with Some m => if has_mixture c && abs_counted m then x_abs m else None | None => None end.
Definition rel_known_src (c : comp) : option Q :=
  match c with Some m => if has_mixture c && rel_counted m then x_rel m else None | None => None end.
Definition sys_known_src (c : comp) : option Q :=
  match c with Some m => if sys_counted c m then x_sys m else None | None => None end.

Lemma abs_known_is_source c : abs_known_src c = abs_known c.
Proof. destruct c as [m|]; reflexivity. Qed.
Lemma rel_known_is_source c : rel_known_src c = rel_known c.
Proof. destruct c as [[a [r|] s]|]; reflexivity. Qed.
Lemma sys_known_is_source (c : option mix) :
  sys_known_src c = match c with Some m => if otruthy (x_sys m) then x_sys m else None | None => None end.
Proof. destruct c as [m|]; reflexivity. Qed.

(* the remainder loop *)
Fixpoint fill_missing_src (cs : list comp) (w : Q) : result (list comp) :=
  match cs with
  | [] => OK []
  | c :: r =>
      do c' <- (if fill_new c then
                  (* Mixture(f".|{w}%|"): the constructor's own range test (mixture.py:37-38) *)
                  (if Qlt_bool w 0 || Qlt_bool 100 w then Err ERuntime "Mixture percent"
                   else OK {| x_abs := None; x_rel := Some w; x_sys := None |})
                else match c with
                     | Some m => if fill_rel m then set_rel_src m w else OK m
                     | None => Err EOther "unreachable"
                     end);
      do r' <- fill_missing_src r w;
      OK (Some c' :: r')
  end.

Lemma fill_missing_is_source cs w : fill_missing_src cs w = fill_missing cs w.
Proof.
  induction cs as [|c r IH]; [reflexivity|]. cbn [fill_missing_src fill_missing]. rewrite IH.
  destruct c as [m|]; cbn [fill_new]; [|reflexivity].
  unfold fill_rel. destruct (x_rel m) eqn:E; [reflexivity|]. rewrite set_rel_is_source. reflexivity.
Qed.

(* the pairwise comparison of the estimates *)
Fixpoint consistent_src (l : list Q) : bool :=
  match l with
  | a :: ((b :: _) as r) => if disagree a b then false else consistent_src r
  | _ => true
  end.
Lemma consistent_is_source l : consistent_src l = consistent l.
Proof.
  induction l as [|a l IH]; [reflexivity|]. destruct l as [|b r]; [reflexivity|].
  change (consistent_src (a :: b :: r)) with (if disagree a b then false else consistent_src (b :: r)).
  change (consistent (a :: b :: r)) with (if Qlt_bool (1 # 1000000) (Qabs (a - b)) then false else consistent (b :: r)).
  unfold disagree. rewrite IH. reflexivity.
Qed.
Lemma consistent_short l : several (List.length l) = false -> consistent l = true.
Proof. destruct l as [|a [|b r]]; try reflexivity. unfold several. cbn [List.length]. intros H. apply Z.ltb_ge in H. lia. Qed.

(* the last loop *)
Fixpoint set_all_sys_src (cs : list comp) (s : Q) (done : list comp) : result (bool * list comp) :=
  match cs with
  | [] => OK (true, rev done)
  | c :: r => if missing c then OK (false, (rev done ++ cs)%list)
              else match c with Some m => do m' <- set_sys_src m s; set_all_sys_src r s (Some m' :: done) | None => Err EOther "unreachable" end
  end.
Lemma set_all_sys_is_source cs : forall s done, set_all_sys_src cs s done = set_all_sys cs s done.
Proof.
  induction cs as [|c r IH]; intros s done; [reflexivity|]. cbn [set_all_sys_src set_all_sys].
  destruct c as [m|]; cbn [missing]; [|reflexivity]. rewrite set_sys_is_source. destruct (set_sys m s); cbn [Bond.bind]; [apply IH|reflexivity].
Qed.

(* _estimate_system_molecular_weight over the regenerated predicates, statement by statement *)
Definition estimate_src (cs : list comp) (smw : option Q) : result (bool * list comp) :=
  let est0 := match smw with Some s => if smw_counted s then [s] else [] | None => [] end in
  let masses := somes (map abs_known_src cs) in
  let fracs := somes (map rel_known_src cs) in
  let n := List.length cs in
  do st <- (if fill_cond (List.length fracs) n then
              let w := 100 - sumq fracs in
              if weight_bad w then Err ERuntime "invalid extra weight"
              else do cs' <- fill_missing_src cs w; OK (cs', sumq fracs + w, S (List.length fracs))
            else OK (cs, sumq fracs, List.length fracs));
  let '(cs1, totf, nf) := st in
  if total_bad nf n totf then Err ERuntime "total fraction != 100" else
  let est1 := (est0 ++ somes (map sys_known_src cs1))%list in
  let est2 := if mass_cond (List.length masses) n then (est1 ++ [sumq masses])%list else est1 in
  if several (List.length est2) && negb (consistent_src est2) then Err ERuntime "inconsistent mol weights" else
  match est2 with
  | [] => OK (false, cs1)
  | s :: _ => set_all_sys_src cs1 s []
  end.

Lemma fill_cond_is nf n : fill_cond nf n = Nat.eqb (S nf) n.
Proof.
  unfold fill_cond. destruct (Nat.eqb (S nf) n) eqn:E.
  - apply Nat.eqb_eq in E. apply Z.eqb_eq. lia.
  - apply Nat.eqb_neq in E. apply Z.eqb_neq. lia.
Qed.
Lemma count_eq_is a b : Z.eqb (Z.of_nat a) (Z.of_nat b) = Nat.eqb a b.
Proof.
  destruct (Nat.eqb a b) eqn:E.
  - apply Nat.eqb_eq in E. apply Z.eqb_eq. lia.
  - apply Nat.eqb_neq in E. apply Z.eqb_neq. lia.
Qed.

Theorem estimate_is_source cs smw : estimate_src cs smw = estimate cs smw.
Proof.
  unfold estimate_src, estimate.
  rewrite (map_ext _ _ abs_known_is_source), (map_ext _ _ rel_known_is_source).
  rewrite fill_cond_is. unfold weight_bad, smw_counted.
  rewrite fill_missing_is_source.
  match goal with |- Bond.bind ?x _ = Bond.bind ?x _ => destruct x as [[[cs1 totf] nf]|e msg]; cbn [Bond.bind]; [|reflexivity] end.
  unfold total_bad, mass_cond. rewrite !count_eq_is.
  destruct (Nat.eqb nf (List.length cs) && Qlt_bool (1 # 1000000) (Qabs (totf - 100)))%bool; [reflexivity|].
  rewrite (map_ext _ _ sys_known_is_source).
  cbv zeta.
  match goal with |- context [consistent_src ?e] => generalize e; intros est2 end.
  rewrite consistent_is_source.
  destruct (several (List.length est2)) eqn:Es; cbn [andb].
  - destruct (negb (consistent est2)); [reflexivity|]. destruct est2; [reflexivity|apply set_all_sys_is_source].
  - rewrite (consistent_short _ Es). cbn [negb]. destruct est2; [reflexivity|apply set_all_sys_is_source].
Qed.
