(* Flory-Schulz mass function a^2 k (1-a)^(k-1) (distribution.py:100) over the reals: non-negative and
   the series over k = 1, 2, ... converges to 1 for every 0 < a < 1.  Uses the standard library's
   Reals and Coquelicot (axioms of the standard library's real numbers, listed by Print Assumptions). *)
From Coq Require Import Reals Lra Lia.
From Coquelicot Require Import Coquelicot.
Open Scope R_scope.
Definition fs_pmf_R (a : R) (k : nat) : R := a^2 * INR k * (1 - a)^(k - 1).
Lemma fs_partial_R a n : sum_f_R0 (fun i => fs_pmf_R a (S i)) n = 1 - (1 - a)^(S n) * (1 + INR (S n) * a).
Proof.
  induction n as [|n IH].
  - simpl. unfold fs_pmf_R. simpl. ring.
  - rewrite tech5, IH. unfold fs_pmf_R. replace (S (S n) - 1)%nat with (S n) by lia. rewrite !S_INR. simpl. ring.
Qed.
Lemma lim_inv_S : is_lim_seq (fun n => / INR (S n)) 0.
Proof.
  apply (is_lim_seq_incr_1 (fun n => / INR n)).
  replace (Finite 0) with (Rbar_inv p_infty) by reflexivity.
  apply is_lim_seq_inv; [apply is_lim_seq_INR | discriminate].
Qed.
Lemma npow_lim q : 0 < q < 1 -> is_lim_seq (fun n => INR (S n) * q ^ (S n)) 0.
Proof.
  intros Hq. set (a := fun n => INR (S n) * q ^ (S n)).
  assert (Ha : forall n, a n <> 0).
  { intros n; unfold a. apply Rmult_integral_contrapositive_currified; [apply not_0_INR; lia | apply pow_nonzero; lra]. }
  apply is_lim_seq_abs_0. apply ex_series_lim_0.
  apply (ex_series_DAlembert a q); [lra | exact Ha |].
  apply (is_lim_seq_ext (fun n => q * (1 + / INR (S n)))).
  - intros n. unfold a. rewrite Rabs_pos_eq.
    + rewrite (S_INR (S n)). simpl pow.
      assert (INR (S n) <> 0) by (apply not_0_INR; lia). assert (q ^ n <> 0) by (apply pow_nonzero; lra). assert (q <> 0) by lra.
      field. repeat split; assumption.
    + apply Rlt_le, Rdiv_lt_0_compat; apply Rmult_lt_0_compat; try (apply lt_0_INR; lia); apply pow_lt; lra.
  - replace (Finite q) with (Rbar_mult q (Finite (1 + 0))) by (simpl; f_equal; ring).
    apply is_lim_seq_scal_l. apply (is_lim_seq_plus' (fun _ => 1) _ 1 0); [apply is_lim_seq_const | apply lim_inv_S].
Qed.
Theorem fs_sums_to_one_R a : 0 < a < 1 -> is_series (fun i => fs_pmf_R a (S i)) 1.
Proof.
  intros Ha. change (is_lim_seq (sum_n (fun i => fs_pmf_R a (S i))) (Finite 1)).
  apply (is_lim_seq_ext (fun n => 1 - ((1 - a) ^ S n + a * (INR (S n) * (1 - a) ^ S n)))).
  - intros n. rewrite sum_n_Reals, fs_partial_R. ring.
  - replace (Finite 1) with (Finite (1 - (0 + a * 0))) by (f_equal; ring).
    apply is_lim_seq_minus'; [apply is_lim_seq_const|].
    apply is_lim_seq_plus'.
    + apply (is_lim_seq_incr_1 (fun n => (1 - a) ^ n)). apply is_lim_seq_geom. rewrite Rabs_pos_eq; lra.
    + replace (Finite (a * 0)) with (Rbar_mult a (Finite 0)) by (simpl; f_equal; ring).
      apply is_lim_seq_scal_l. apply npow_lim; lra.
Qed.
Theorem fs_nonneg_R a k : 0 <= a <= 1 -> 0 <= fs_pmf_R a k.
Proof.
  intros Ha. unfold fs_pmf_R. apply Rmult_le_pos; [apply Rmult_le_pos; [apply pow_le; lra|apply pos_INR]|apply pow_le; lra].
Qed.
