(* The descriptor round trip for EVERY accepted descriptor text (not a finite universe):
   parse -> print -> parse gives the identical record, which prints to the same text.
   The float printer is a section variable (Python repr): the theorem asks of it, for the weights that occur in the
   descriptor, what repr guarantees -- float(repr(x)) = x, and a non-empty text without blanks, bars or brackets. *)
From Coq Require Import List ZArith QArith Ascii String Bool Lia.
From GBS Require Import Model.PyStr Model.Num Model.Bond Src.SrcBond Proofs.BondP Proofs.TokenP Proofs.TotalP Proofs.StrP.
Import ListNotations.
Open Scope Z_scope.
Open Scope list_scope.

Definition lb : ascii := ch "[".
Definition rb : ascii := ch "]".
Definition bar : ascii := ch "|".

Lemma strip_brackets (X : str) : strip (lb :: X ++ [rb]) = lb :: X ++ [rb].
Proof. apply strip_by_ends; reflexivity. Qed.

Lemma raw_norm_canon (rest pre : str) :
  (if len pre =? 0 then slice (lb :: rest) (Some (find (lit "[") (lb :: rest))) None else lb :: rest) = lb :: rest.
Proof. destruct (len pre =? 0); [|reflexivity]. change (find (lit "[") (lb :: rest)) with 0. apply slice_all_from_0. Qed.

Lemma z_to_str_nonempty z : z_to_str z <> [].
Proof.
  unfold z_to_str. destruct (z <? 0) eqn:Ez; [discriminate|]. apply Z.ltb_ge in Ez.
  destruct (pos_digits_spec _ z [] (log2_fuel z Ez)) as (ds & E & Hne & _). rewrite E, app_nil_r. exact Hne.
Qed.

Lemma len_pos_nonempty (s : str) : s <> [] -> (len s >? 0) = true.
Proof. destruct s; [contradiction|]. intros _. rewrite len_cons. pose proof (len_nonneg s). apply Z.gtb_lt. lia. Qed.

(* the id text the printer writes is read back as the id *)
Lemma id_read_back (i : option Z) :
  (if len (id_str i) >? 0 then match py_int (id_str i) with Some z => OK (Some z) | None => Err EValue "id" end else OK None) = OK i.
Proof.
  destruct i as [z|]; cbn [id_str]; [|reflexivity].
  rewrite len_pos_nonempty by apply z_to_str_nonempty. rewrite py_int_z_to_str. reflexivity.
Qed.

Lemma id_str_plain i : plain (id_str i) = true.
Proof. destruct i; [apply z_to_str_plain|reflexivity]. Qed.

Definition sym_char (c : ascii) : Prop := c = ch "$" \/ c = ch "<" \/ c = ch ">".
Definition no_stereo (pre : str) : Prop :=
  contains (lit "@") pre = false /\ contains (lit "/") pre = false /\ contains (lit "\") pre = false.

Ltac assoc := repeat first [rewrite <- app_assoc | progress cbn [app]].

(* the two canonical shapes *)
Definition canon0 (c1 : ascii) (ids : str) : str := lb :: c1 :: ids ++ [rb].
Definition canonW (c1 : ascii) (ids body : str) : str := lb :: c1 :: ids ++ bar :: body ++ [bar; rb].

Lemma canon0_strip c1 ids : strip (canon0 c1 ids) = canon0 c1 ids.
Proof. unfold canon0. change (lb :: c1 :: ids ++ [rb]) with (lb :: (c1 :: ids) ++ [rb]). apply strip_brackets. Qed.
Lemma canonW_assoc c1 ids body : canonW c1 ids body = lb :: (c1 :: ids ++ bar :: body ++ [bar]) ++ [rb].
Proof. unfold canonW. assoc. reflexivity. Qed.
Lemma canonW_strip c1 ids body : strip (canonW c1 ids body) = canonW c1 ids body.
Proof. rewrite canonW_assoc. apply strip_brackets. Qed.

(* ---- parsing a canonical text without a weight segment ---- *)
Lemma parse_canon_plain c1 i n pre atom : sym_char c1 -> no_stereo pre ->
  parse_descr (canon0 c1 (id_str i)) n pre atom =
  OK {| d_sym := [c1]; d_id := i; d_weight := Fin 1; d_trans := None; d_order := Bond.order_of_pre pre;
        d_pre := pre; d_atom := atom; d_num := n |}.
Proof.
  intros Hc (S1 & S2 & S3).
  pose proof (id_str_plain i) as Hp. set (ids := id_str i) in *.
  assert (Nb : nochar bar (canon0 c1 ids) = true).
  { unfold canon0. cbn [nochar forallb]. fold (nochar bar (ids ++ [rb])). rewrite nochar_app.
    rewrite (plain_nochar ids bar eq_refl Hp). destruct Hc as [->|[->| ->]]; reflexivity. }
  assert (E0 : str_eqb (canon0 c1 ids) (lit "[]") = false) by (destruct Hc as [->|[->| ->]]; reflexivity).
  assert (I0 : index (canon0 c1 ids) 0 = Some lb) by apply index_0.
  assert (I1 : index (canon0 c1 ids) 1 = Some c1) by apply index_1.
  assert (Il : index (canon0 c1 ids) (-1) = Some rb).
  { unfold canon0. change (lb :: c1 :: ids ++ [rb]) with ((lb :: c1 :: ids) ++ [rb]). apply index_last. }
  assert (Eid : slice (canon0 c1 ids) (Some 2) (Some (-1)) = ids).
  { unfold canon0. change (lb :: c1 :: ids ++ [rb]) with ([lb; c1] ++ ids ++ [rb]). change 2 with (len [lb; c1]). apply slice_drop_last. }
  assert (Es : in_set (lit "$<>") c1 = true) by (destruct Hc as [->|[->| ->]]; reflexivity).
  unfold parse_descr. rewrite E0.
  assert (En : (if len pre =? 0 then slice (canon0 c1 ids) (Some (find (lit "[") (canon0 c1 ids))) None else canon0 c1 ids) = canon0 c1 ids)
    by apply raw_norm_canon.
  rewrite En. rewrite I0, Il, I1.
  change (negb (Ascii.eqb lb (ch "[") && Ascii.eqb rb (ch "]"))) with false. cbv iota.
  rewrite Es. cbn [negb].
  change (lit "|") with [bar]. rewrite (contains_miss bar _ Nb). rewrite Eid.
  change (lit "[") with [lb]. change (lit "]") with [rb].
  rewrite (contains_miss lb ids (plain_nochar ids lb eq_refl Hp)), (contains_miss rb ids (plain_nochar ids rb eq_refl Hp)).
  cbn [orb]. unfold ids. rewrite id_read_back. cbn [Bond.bind fst snd].
  rewrite S1, S2, S3. reflexivity.
Qed.

(* ---- parsing a canonical text with a weight segment ---- *)
Lemma parse_canon_weights c1 i body n pre atom : sym_char c1 -> no_stereo pre ->
  nochar bar body = true -> nochar lb body = true -> nochar rb body = true ->
  parse_descr (canonW c1 (id_str i) body) n pre atom =
  match map_opt py_float (split_ws body) with
  | None => Err EValue "weight"
  | Some [] => Err ERuntime "empty weight specification"
  | Some [w] => OK {| d_sym := [c1]; d_id := i; d_weight := w; d_trans := None; d_order := Bond.order_of_pre pre;
                      d_pre := pre; d_atom := atom; d_num := n |}
  | Some l => OK {| d_sym := [c1]; d_id := i; d_weight := num_sum l; d_trans := Some l; d_order := Bond.order_of_pre pre;
                    d_pre := pre; d_atom := atom; d_num := n |}
  end.
Proof.
  intros Hc (S1 & S2 & S3) Bb Bl Br.
  pose proof (id_str_plain i) as Hp. set (ids := id_str i) in *.
  set (P := lb :: c1 :: ids).
  assert (NP : nochar bar P = true).
  { unfold P. cbn [nochar forallb]. fold (nochar bar ids). rewrite (plain_nochar ids bar eq_refl Hp).
    destruct Hc as [->|[->| ->]]; reflexivity. }
  assert (ES : canonW c1 ids body = P ++ bar :: body ++ [bar; rb]) by reflexivity.
  assert (E0 : str_eqb (canonW c1 ids body) (lit "[]") = false) by (destruct Hc as [->|[->| ->]]; reflexivity).
  assert (I0 : index (canonW c1 ids body) 0 = Some lb) by apply index_0.
  assert (I1 : index (canonW c1 ids body) 1 = Some c1) by apply index_1.
  assert (Il : index (canonW c1 ids body) (-1) = Some rb).
  { rewrite canonW_assoc. change (lb :: (c1 :: ids ++ bar :: body ++ [bar]) ++ [rb]) with ((lb :: c1 :: ids ++ bar :: body ++ [bar]) ++ [rb]).
    apply index_last. }
  assert (Es : in_set (lit "$<>") c1 = true) by (destruct Hc as [->|[->| ->]]; reflexivity).
  assert (Ect : contains [bar] (canonW c1 ids body) = true) by (rewrite ES; apply contains_hit, NP).
  assert (Ef : find [bar] (canonW c1 ids body) = len P) by (rewrite ES; apply find_hit, NP).
  assert (Eid : slice (canonW c1 ids body) (Some 2) (Some (len P)) = ids).
  { rewrite ES. unfold P. change (lb :: c1 :: ids) with ([lb; c1] ++ ids). rewrite <- app_assoc.
    rewrite len_app. change 2 with (len [lb; c1]). apply slice_mid. }
  assert (Ec : count_char bar (canonW c1 ids body) = 2).
  { rewrite ES. rewrite count_char_app. cbn [count_char]. rewrite count_char_app. cbn [count_char].
    rewrite (count_char_nochar bar P NP), (count_char_nochar bar body Bb). reflexivity. }
  assert (Er : rfind [bar] (canonW c1 ids body) = len P + 1 + len body).
  { rewrite ES. replace (P ++ bar :: body ++ [bar; rb]) with ((P ++ bar :: body) ++ bar :: [rb]) by (assoc; reflexivity).
    rewrite rfind_hit by reflexivity. rewrite len_app, len_cons. lia. }
  assert (Et : slice (canonW c1 ids body) (Some (len P + 1 + len body + 1)) None = [rb]).
  { rewrite ES. replace (P ++ bar :: body ++ [bar; rb]) with ((P ++ bar :: body ++ [bar]) ++ [rb]) by (assoc; reflexivity).
    replace (len P + 1 + len body + 1) with (len (P ++ bar :: body ++ [bar])) by (rewrite len_app, len_cons, len_app, len_cons, len_nil; lia).
    apply slice_tail. }
  assert (Ew : slice (canonW c1 ids body) (Some (len P)) (Some (len P + 1 + len body)) = bar :: body).
  { rewrite ES. change (bar :: body ++ [bar; rb]) with ((bar :: body) ++ [bar; rb]).
    replace (len P + 1 + len body) with (len P + len (bar :: body)) by (rewrite len_cons; lia). apply slice_mid. }
  assert (Esc : strip_chars [bar] (bar :: body) = body).
  { apply strip_by_lead; [reflexivity|]. unfold nonef. unfold nochar in Bb. rewrite forallb_forall in Bb. apply forallb_forall.
    intros x Hx. specialize (Bb x Hx). unfold in_set. cbn [existsb]. rewrite orb_false_r. exact Bb. }
  unfold parse_descr. rewrite E0.
  assert (En : (if len pre =? 0 then slice (canonW c1 ids body) (Some (find (lit "[") (canonW c1 ids body))) None else canonW c1 ids body) = canonW c1 ids body)
    by apply raw_norm_canon.
  rewrite En. rewrite I0, Il, I1.
  change (negb (Ascii.eqb lb (ch "[") && Ascii.eqb rb (ch "]"))) with false. cbv iota.
  rewrite Es. cbn [negb].
  change (lit "|") with [bar]. change (ch "|") with bar.
  rewrite Ect, Ef, Eid.
  change (lit "[") with [lb]. change (lit "]") with [rb].
  rewrite (contains_miss lb ids (plain_nochar ids lb eq_refl Hp)), (contains_miss rb ids (plain_nochar ids rb eq_refl Hp)).
  cbn [orb]. unfold ids at 1 2. rewrite id_read_back. cbn [Bond.bind].
  rewrite Ec. change (negb (2 =? 2)) with false. cbv iota.
  rewrite Er, Et. change (negb (str_eqb [rb] [rb])) with false. cbv iota.
  rewrite Ew, Esc.
  destruct (map_opt py_float (split_ws body)) as [l|]; [|reflexivity].
  destruct l as [|w [|w2 l']]; cbn [Bond.bind fst snd]; [reflexivity| |]; rewrite S1, S2, S3; reflexivity.
Qed.

(* ---- what the parser hands out ---- *)
Opaque Qred Qmult.
Lemma py_float_reduced s q : py_float s = Some (Fin q) -> Qred q = q.
Proof.
  unfold py_float. destruct (split_sign (strip s)) as [neg r].
  destruct (_ || _)%bool; [destruct neg; discriminate|].
  destruct (str_eqb _ (lit "nan")); [discriminate|].
  destruct (digitpart r) as [[[ip ni] r1]|]; [|discriminate].
  match goal with |- context [match ?fr with Some _ => _ | None => None end = _] => destruct fr as [[[fp nf] r2]|]; [|discriminate] end.
  destruct (Nat.eqb (ni + nf) 0); [discriminate|].
  match goal with |- context [match ?ex with Some _ => _ | None => None end = _] => destruct ex as [ev|]; [|discriminate] end.
  intros H. injection H as <-. apply Qred_complete, Qred_correct.
Qed.
Transparent Qred Qmult.

Lemma num_eqb_one w : (exists s, py_float s = Some w) -> num_eqb w (Fin 1) = true -> w = Fin 1.
Proof.
  intros (s & Hs) H. destruct w as [q| | |]; try discriminate. cbn [num_eqb] in H. apply Qeq_bool_iff in H.
  apply py_float_reduced in Hs. rewrite <- Hs. f_equal. change (1%Q) with (Qred 1). apply Qred_complete. exact H.
Qed.

Lemma map_opt_single {A B} (f : A -> option B) l y : map_opt f l = Some [y] -> exists x, f x = Some y.
Proof.
  destruct l as [|x [|x2 l]]; cbn [map_opt]; [discriminate| |].
  - destruct (f x) eqn:E; [|discriminate]. intros H; injection H as <-. eauto.
  - destruct (f x); [|discriminate]. destruct (f x2); [|discriminate]. destruct (map_opt f l); discriminate.
Qed.

(* a transition list has at least two entries (one number is a weight) *)
Lemma parse_descr_trans_two raw n pre atom d l : parse_descr raw n pre atom = OK d -> d_trans d = Some l -> (2 <= List.length l)%nat.
Proof.
  unfold parse_descr. destruct (str_eqb raw (lit "[]")).
  { intros H; injection H as <-. discriminate. }
  fold (raw_norm raw pre). set (r := raw_norm raw pre).
  destruct (index r 0) as [c0|]; [|discriminate]. destruct (index r (-1)) as [cl|]; [|discriminate].
  destruct (negb _); [discriminate|]. destruct (index r 1) as [c1|]; [|discriminate].
  destruct (negb (in_set _ c1)); [discriminate|]. destruct (_ || _)%bool; [discriminate|].
  match goal with |- context [Bond.bind ?x _] => destruct x as [id|]; cbn [Bond.bind]; [|discriminate] end.
  destruct (contains (lit "|") r).
  - destruct (negb (count_char (ch "|") r =? 2)); [cbn [Bond.bind]; discriminate|].
    destruct (negb (str_eqb _ (lit "]"))); [cbn [Bond.bind]; discriminate|].
    destruct (map_opt py_float _) as [l0|]; [|cbn [Bond.bind]; discriminate].
    destruct l0 as [|w [|w2 l']]; cbn [Bond.bind fst snd]; [discriminate| |]; (destruct (_ || _)%bool; [discriminate|]);
      intros H; injection H as <-; cbn [d_trans]; [discriminate|]. intros H; injection H as <-. cbn [List.length]. lia.
  - cbn [Bond.bind fst snd]. destruct (_ || _)%bool; [discriminate|]. intros H; injection H as <-. discriminate.
Qed.

Section RoundTrip.
  Variable fprint : num -> str.

  (* what Python's repr guarantees for a float *)
  Definition reads_back (w : num) : Prop :=
    py_float (fprint w) = Some w /\ fprint w <> [] /\ plain (fprint w) = true.

  Definition descr_weights (d : descr) : list num :=
    match d_trans d with Some l => l | None => [d_weight d] end.

  (* the joined text: no bar or bracket; split on blanks gives the words *)
  Lemma join_nochar c l : plain_char c = false -> Forall reads_back l -> nochar c (join_sp (map fprint l)) = true \/ c = sp.
  Proof.
    intros Hc H. destruct (Ascii.eqb_spec c sp) as [->|Hn]; [right; reflexivity|left].
    induction H as [|w l (R1 & R2 & R3) Hl IH]; [reflexivity|].
    destruct l as [|w2 l']; [cbn [map join_sp]; apply plain_nochar; assumption|].
    change (join_sp (map fprint (w :: w2 :: l'))) with (fprint w ++ sp :: join_sp (map fprint (w2 :: l'))).
    rewrite nochar_app. rewrite (plain_nochar _ c Hc R3). cbn [nochar forallb andb]. fold (nochar c (join_sp (map fprint (w2 :: l')))).
    rewrite IH. rewrite andb_true_r. apply negb_true_iff. apply Ascii.eqb_neq. intros E. apply Hn. symmetry. exact E.
  Qed.

  Lemma words_ok l : Forall reads_back l ->
    Forall (fun w => nows w = true /\ w <> []) (map fprint l) /\ map_opt py_float (map fprint l) = Some l.
  Proof.
    intros H. induction H as [|w l (R1 & R2 & R3) Hl (IH1 & IH2)].
    - split; constructor.
    - split; [constructor; [split; [apply plain_nows, R3|exact R2]|exact IH1]|].
      cbn [map map_opt]. rewrite R1, IH2. reflexivity.
  Qed.

  (* ---- the printer on a descriptor with a symbol ---- *)
  Lemma print_plain d c1 : d_sym d = [c1] -> d_trans d = None -> num_eqb (d_weight d) (Fin 1) = true ->
    print_descr fprint true d = canon0 c1 (id_str (d_id d)).
  Proof.
    intros Hs Ht Hw. unfold print_descr. rewrite Hs, Ht, Hw. cbn [andb negb].
    change ((lit "[" ++ [c1] ++ id_str (d_id d)) ++ lit "]") with (canon0 c1 (id_str (d_id d))). apply canon0_strip.
  Qed.

  Lemma print_single d c1 : d_sym d = [c1] -> d_trans d = None -> num_eqb (d_weight d) (Fin 1) = false ->
    print_descr fprint true d = canonW c1 (id_str (d_id d)) (fprint (d_weight d)).
  Proof.
    intros Hs Ht Hw. unfold print_descr. rewrite Hs, Ht, Hw. cbn [andb negb].
    change (lit "[" ++ [c1] ++ id_str (d_id d)) with (lb :: c1 :: id_str (d_id d)).
    change (lit "|") with [bar]. change (lit "]") with [rb].
    replace (((lb :: c1 :: id_str (d_id d)) ++ [bar] ++ fprint (d_weight d) ++ [bar]) ++ [rb])
      with (canonW c1 (id_str (d_id d)) (fprint (d_weight d))) by (unfold canonW; assoc; reflexivity).
    apply canonW_strip.
  Qed.

  Lemma print_list d c1 l : d_sym d = [c1] -> d_trans d = Some l -> l <> [] ->
    print_descr fprint true d = canonW c1 (id_str (d_id d)) (join_sp (map fprint l)).
  Proof.
    intros Hs Ht Hl. unfold print_descr. rewrite Hs, Ht. cbn [andb].
    change (lit "[" ++ [c1] ++ id_str (d_id d)) with (lb :: c1 :: id_str (d_id d)).
    change (lit "|") with [bar]. change (lit "]") with [rb]. change (lit " ") with [sp].
    assert (E : List.concat (map (fun t => fprint t ++ [sp]) l) = join_sp (map fprint l) ++ [sp]).
    { rewrite <- (concat_sp_join (map fprint l)) by (destruct l; [contradiction|discriminate]). rewrite map_map. reflexivity. }
    rewrite E.
    replace ((lb :: c1 :: id_str (d_id d)) ++ [bar] ++ join_sp (map fprint l) ++ [sp])
      with (((lb :: c1 :: id_str (d_id d)) ++ bar :: join_sp (map fprint l)) ++ [sp]) by (assoc; reflexivity).
    rewrite slice_removelast.
    replace ((((lb :: c1 :: id_str (d_id d)) ++ bar :: join_sp (map fprint l)) ++ [bar]) ++ [rb])
      with (canonW c1 (id_str (d_id d)) (join_sp (map fprint l))) by (unfold canonW; assoc; reflexivity).
    apply canonW_strip.
  Qed.

  (* ---- the theorem ---- *)
  Theorem descr_round_trip raw n pre atom d :
    parse_descr raw n pre atom = OK d ->
    Forall reads_back (descr_weights d) ->
    parse_descr (print_descr fprint true d) n pre atom = OK d.
  Proof.
    intros H Hrb.
    destruct (d_sym d) as [|c1 rest] eqn:Hsym.
    { (* the empty terminal "[]" *)
      revert H Hsym. unfold parse_descr. destruct (str_eqb raw (lit "[]")) eqn:E0.
      - intros H _. injection H as <-. reflexivity.
      - set (r := if len pre =? 0 then _ else raw).
        destruct (index r 0) as [c0|]; [|discriminate]. destruct (index r (-1)) as [cl|]; [|discriminate].
        destruct (negb _); [discriminate|]. destruct (index r 1) as [c1|]; [|discriminate].
        destruct (negb (in_set _ c1)); [discriminate|]. destruct (_ || _)%bool; [discriminate|].
        match goal with |- context [Bond.bind ?x _] => destruct x as [id|]; cbn [Bond.bind]; [|discriminate] end.
        match goal with |- context [Bond.bind ?x _] => destruct x as [wt|]; cbn [Bond.bind]; [|discriminate] end.
        destruct (_ || _)%bool; [discriminate|]. intros H; injection H as <-. discriminate. }
    assert (Hne : d_sym d <> []) by (rewrite Hsym; discriminate).
    destruct (parse_descr_shape _ _ _ _ _ H) as (_ & Hpre & Hnum & _ & Hrest). destruct (Hrest Hne) as (Hord & Hatom).
    destruct (parse_descr_accepts_only _ _ _ _ _ H Hne) as (_ & _ & (c & _ & Hc & Hs) & _ & S1 & S2 & S3).
    rewrite Hsym in Hs. injection Hs as -> ->.
    assert (Hsc : sym_char c).
    { apply in_set_syms in Hc. destruct Hc as [E|[E|E]]; injection E as ->; [left|right; left|right; right]; reflexivity. }
    assert (Hst : no_stereo pre) by (repeat split; assumption).
    destruct (parse_descr_weight _ _ _ _ _ H Hne) as (W1 & W2 & W3).
    assert (Hd : d = {| d_sym := [c]; d_id := d_id d; d_weight := d_weight d; d_trans := d_trans d; d_order := Bond.order_of_pre pre;
                        d_pre := pre; d_atom := atom; d_num := n |}).
    { destruct d; cbn in *. rewrite src_order_model in Hord. congruence. }
    destruct (d_trans d) as [l|] eqn:Ht.
    - (* a transition list *)
      destruct (W2 l eq_refl) as (Hw & _).
      pose proof (parse_descr_trans_two _ _ _ _ _ _ H Ht) as L2.
      unfold descr_weights in Hrb. rewrite Ht in Hrb.
      destruct (words_ok l Hrb) as (Hwords & Hread).
      rewrite (print_list d c l Hsym Ht) by (destruct l; [cbn in L2; lia|discriminate]).
      rewrite parse_canon_weights; try assumption.
      + rewrite (split_ws_join _ Hwords), Hread.
        destruct l as [|w [|w2 l']]; [cbn in L2; lia|cbn in L2; lia|]. rewrite <- Hw. rewrite Hd. reflexivity.
      + destruct (join_nochar bar l eq_refl Hrb) as [E|E]; [exact E|discriminate].
      + destruct (join_nochar lb l eq_refl Hrb) as [E|E]; [exact E|discriminate].
      + destruct (join_nochar rb l eq_refl Hrb) as [E|E]; [exact E|discriminate].
    - (* a single weight *)
      unfold descr_weights in Hrb. rewrite Ht in Hrb. pose proof (Forall_inv Hrb) as (R1 & R2 & R3).
      destruct (num_eqb (d_weight d) (Fin 1)) eqn:E1.
      + assert (Ew : d_weight d = Fin 1).
        { destruct (contains (lit "|") (raw_norm raw pre)) eqn:Ec.
          - specialize (W3 eq_refl eq_refl). apply map_opt_single in W3. apply num_eqb_one; assumption.
          - destruct (W1 eq_refl) as (E & _). exact E. }
        rewrite (print_plain d c Hsym Ht E1). rewrite parse_canon_plain by assumption. rewrite <- Ew. rewrite Hd. reflexivity.
      + rewrite (print_single d c Hsym Ht E1). rewrite parse_canon_weights; try assumption.
        * assert (Esp : split_ws (fprint (d_weight d)) = [fprint (d_weight d)]).
          { change (fprint (d_weight d)) with (join_sp [fprint (d_weight d)]) at 1. apply split_ws_join.
            constructor; [split; [apply plain_nows, R3|exact R2]|constructor]. }
          rewrite Esp. cbn [map_opt]. rewrite R1. rewrite Hd. reflexivity.
        * apply plain_nochar; [reflexivity|exact R3].
        * apply plain_nochar; [reflexivity|exact R3].
        * apply plain_nochar; [reflexivity|exact R3].
  Qed.

  (* hence the canonical text is a fixed point of parse-then-print *)
  Corollary descr_canonical_fixed_point raw n pre atom d :
    parse_descr raw n pre atom = OK d -> Forall reads_back (descr_weights d) ->
    exists d', parse_descr (print_descr fprint true d) n pre atom = OK d' /\ d' = d /\
               print_descr fprint true d' = print_descr fprint true d.
  Proof. intros H Hr. exists d. split; [eapply descr_round_trip; eassumption|split; reflexivity]. Qed.
End RoundTrip.
