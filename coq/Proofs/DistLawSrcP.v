(* Tie T for the probability rules of distribution.py: Src/SrcDistLaw.v holds, REGENERATED from the source, the interval rule and the
   point rule of prob_mw in every class (the keyword arguments of both cdf calls are checked to be the object's own parameters), the
   Gauss shortcut, the Flory-Schulz mass function and the Schulz-Zimm shape parameter; draw_mw is checked to draw once with the object's
   parameters and the caller's generator.  Proved here: each interval rule is the difference of the law's own cdf at the two ends, hence
   consecutive intervals telescope; the regenerated mass function and shape parameter are those of Model/Dist.v. *)
From Coq Require Import List ZArith QArith Qabs Bool Lia.
From GBS Require Import Model.PyStr Model.Num Model.Bond Model.Sys Model.DistFam Model.Dist Src.SrcDistLaw.
Import ListNotations.
Open Scope Q_scope.

Theorem interval_rules_are_cdf_differences (cdf : Q -> Q) previous value :
  interval_Distribution cdf previous value = cdf value - cdf previous /\
  interval_FlorySchulz cdf previous value = cdf value - cdf previous /\
  interval_SchulzZimm cdf previous value = cdf value - cdf previous /\
  interval_LogNormal cdf previous value = cdf value - cdf previous.
Proof. repeat split. Qed.

Theorem point_rules_are_the_laws (p : Q) :
  point_Distribution p = p /\ point_FlorySchulz p = p /\ point_SchulzZimm p = p /\ point_LogNormal p = p.
Proof. repeat split. Qed.

(* the probabilities of consecutive intervals m0 < m1 < ... add up to cdf(last) - cdf(first), whatever the cut points *)
Fixpoint interval_sum (rule : (Q -> Q) -> Q -> Q -> Q) (cdf : Q -> Q) (m0 : Q) (cuts : list Q) : Q :=
  match cuts with
  | [] => 0
  | m1 :: r => rule cdf m0 m1 + interval_sum rule cdf m1 r
  end.

Lemma last_cons {A} (x : A) r : forall d, last (x :: r) d = last r x.
Proof.
  revert x. induction r as [|y r IH]; intros x d; [reflexivity|].
  change (last (x :: y :: r) d) with (last (y :: r) d). change (last (y :: r) x) with (last (y :: r) x).
  rewrite (IH y d), (IH y x). reflexivity.
Qed.

Theorem intervals_telescope (rule : (Q -> Q) -> Q -> Q -> Q) (cdf : Q -> Q) :
  (forall a b, rule cdf a b = cdf b - cdf a) ->
  forall cuts m0, interval_sum rule cdf m0 cuts == cdf (last cuts m0) - cdf m0.
Proof.
  intros H. induction cuts as [|m1 r IH]; intros m0.
  - cbn. ring.
  - cbn [interval_sum]. rewrite IH, H. rewrite last_cons. ring.
Qed.

Corollary source_intervals_telescope (cdf : Q -> Q) cuts m0 :
  interval_sum interval_Distribution cdf m0 cuts == cdf (last cuts m0) - cdf m0 /\
  interval_sum interval_FlorySchulz cdf m0 cuts == cdf (last cuts m0) - cdf m0 /\
  interval_sum interval_SchulzZimm cdf m0 cuts == cdf (last cuts m0) - cdf m0 /\
  interval_sum interval_LogNormal cdf m0 cuts == cdf (last cuts m0) - cdf m0.
Proof. repeat split; apply intervals_telescope; reflexivity. Qed.

Theorem fs_pmf_is_source a k : fs_pmf_src a k = fs_pmf a k.
Proof. unfold fs_pmf_src, fs_pmf. change (a ^ 2) with (a * a). reflexivity. Qed.

Theorem sz_shape_is_source Mw Mn :
  plumb FSchulzZimm [Mw; Mn] = if Qeq_bool (Mw - Mn) 0 then LBad else LSchulzZimm (sz_shape Mw Mn) Mn.
Proof. reflexivity. Qed.

(* the Gauss shortcut answers 1 only for a law of (numerically) zero width asked at its own mean *)
Theorem gauss_shortcut_sound mu sigma mw : gauss_shortcut mu sigma mw = true -> sigma < 1 # 1000000 /\ Qabs (mu - mw) < 1 # 1000000.
Proof.
  unfold gauss_shortcut, Qlt_bool. intros H. apply andb_true_iff in H as [H1 H2]. apply negb_true_iff in H1, H2.
  split; apply Qnot_le_lt; intros C; apply Qle_bool_iff in C; congruence.
Qed.
