(* C20: cache transparency over the TRANSLATED cache step (Src/SrcFF.v, regenerated from
   forcefield_helper.py on every run), and the selection logic of get_type_assignments. *)
From Coq Require Import List Bool Arith Lia.
From GBS Require Import Model.FF Src.SrcFF Model.FFSel.
Import ListNotations.

(* ---- cache ---- *)
Definition req := (file * file)%type.
Definition run_cache (h : list req) : cache := fold_left (fun st r => cache_step st (fst r) (snd r)) h init.
Definition returned (h : list req) : option assigner := g_cls (run_cache h).

Definition CInv (st : cache) : Prop :=
  match g_cls st with None => True | Some a => a = build (g_smarts st) (g_nb st) end.

Lemma file_eqb_eq a b : file_eqb a b = true -> a = b.
Proof. destruct a, b; simpl; try discriminate; auto. intros H; apply Nat.eqb_eq in H; congruence. Qed.

Lemma step_inv st s n : CInv st -> CInv (cache_step st s n) /\ g_cls (cache_step st s n) = Some (build s n).
Proof.
  unfold CInv, cache_step. intros H.
  destruct (g_cls st) as [a|] eqn:Ha; cbn [is_none orb].
  - destruct (file_eqb s (g_smarts st)) eqn:E1; cbn [negb orb].
    + destruct (file_eqb n (g_nb st)) eqn:E2; cbn [negb orb].
      * rewrite Ha. apply file_eqb_eq in E1, E2. subst. split; reflexivity.
      * cbn. split; reflexivity.
    + cbn. split; reflexivity.
  - cbn. split; reflexivity.
Qed.

(* whatever was requested before, the assigner handed out is the one built from the files of THIS request *)
Theorem cache_transparent : forall h r, returned (h ++ [r]) = Some (build (fst r) (snd r)).
Proof.
  intros h [s n]. unfold returned, run_cache. rewrite fold_left_app. cbn [fold_left fst snd].
  apply step_inv. generalize init (I : CInv init). induction h as [|[s' n'] h IH]; intros st Hst; cbn [fold_left]; [exact Hst|].
  apply IH. apply step_inv. exact Hst.
Qed.

(* ---- selection ---- *)
Lemma fold_longer_spec rest : forall r,
  let b := fold_left longer rest r in
  In b (r :: rest) /\ (forall x, In x (r :: rest) -> r_len x <= r_len b).
Proof.
  induction rest as [|y rest IH]; intros r; cbn [fold_left].
  - split; [left; reflexivity|]. intros x [<-|[]]. lia.
  - destruct (IH (longer r y)) as [H1 H2]. cbv zeta in *. split.
    + destruct H1 as [H1|H1]; [|right; right; exact H1].
      assert (Hl : longer r y = r \/ longer r y = y) by (unfold longer; destruct (Nat.ltb _ _); auto).
      destruct Hl as [Hl|Hl]; rewrite Hl in H1 at 1; [left; exact H1|right; left; exact H1].
    + intros x Hx. assert (L : r_len r <= r_len (longer r y) /\ r_len y <= r_len (longer r y)).
      { unfold longer. destruct (Nat.ltb_spec (r_len r) (r_len y)); lia. }
      destruct Hx as [<-|[<-|Hx]].
      * specialize (H2 (longer r y) (or_introl eq_refl)). lia.
      * specialize (H2 (longer r y) (or_introl eq_refl)). lia.
      * apply H2. right. exact Hx.
Qed.

(* the chosen rule is one of the matching rules and no matching rule has a longer SMARTS *)
Theorem best_spec rs b : best rs = Some b -> In b rs /\ forall x, In x rs -> r_len x <= r_len b.
Proof.
  destruct rs as [|r rest]; [discriminate|]. cbn [best]. intros H; injection H as <-. apply fold_longer_spec.
Qed.

Theorem best_none rs : best rs = None <-> rs = [].
Proof. destruct rs; cbn [best]; split; congruence. Qed.

Lemma all_some_spec {A} (l : list (option A)) r : all_some l = Some r -> l = map Some r.
Proof.
  revert r; induction l as [|[x|] l IH]; intros r H; cbn [all_some] in H; try discriminate.
  - injection H as <-. reflexivity.
  - destruct (all_some l) as [r'|]; [|discriminate]. injection H as <-. cbn [map]. f_equal. auto.
Qed.

Lemma all_some_none {A} (l : list (option A)) : all_some l = None -> In None l.
Proof.
  induction l as [|[x|] l IH]; cbn [all_some]; intros H; try discriminate.
  - destruct (all_some l); [discriminate|]. right. auto.
  - left. reflexivity.
Qed.

Lemma nth_error_seq n : forall s a x, nth_error (seq s n) a = Some x -> x = s + a.
Proof.
  induction n as [|n IH]; intros s [|a] x H; cbn [seq nth_error] in H; try discriminate.
  - injection H as <-. lia.
  - apply IH in H. lia.
Qed.

(* total or error: success gives exactly one rule per atom, for all atoms; otherwise the partial map *)
Theorem assign_total_or_error rules matches natoms :
  match assign rules matches natoms with
  | FOk l => List.length l = natoms /\
             forall a r, nth_error l a = Some r -> best (rules_for rules matches a) = Some r /\ matches_atom matches a r = true
  | FPartial d => d = assignment rules matches natoms /\ exists a, a < natoms /\ rules_for rules matches a = []
  end.
Proof.
  unfold assign. destruct (all_some (assignment rules matches natoms)) as [l|] eqn:E.
  - apply all_some_spec in E. split.
    + apply (f_equal (@List.length _)) in E. unfold assignment in E. rewrite !map_length, seq_length in E. congruence.
    + intros a r Ha. assert (Hn : nth_error (assignment rules matches natoms) a = Some (Some r)) by (rewrite E, nth_error_map, Ha; reflexivity).
      unfold assignment in Hn. rewrite nth_error_map in Hn.
      destruct (nth_error (seq 0 natoms) a) as [a'|] eqn:Es; [|discriminate].
      apply nth_error_seq in Es. cbn [plus] in Es. subst a'. cbn [option_map] in Hn. injection Hn as Hn. split; [exact Hn|].
      apply best_spec in Hn as [Hin _]. unfold rules_for in Hin. apply filter_In in Hin. apply Hin.
  - split; [reflexivity|]. apply all_some_none in E. unfold assignment in E. apply in_map_iff in E as (a & Ha & Hin).
    apply in_seq in Hin. exists a. split; [lia|]. apply best_none. exact Ha.
Qed.

(* numbering independence of the selection: renumber the atoms by any injective map (and let the
   matcher report the renumbered atoms) -- every atom keeps its rule *)
Theorem selection_equivariant rules matches matches' (pi : nat -> nat) :
  (forall a b, pi a = pi b -> a = b) ->
  (forall r, matches' r = map pi (matches r)) ->
  forall a, best (rules_for rules matches' (pi a)) = best (rules_for rules matches a).
Proof.
  intros Hinj Hm a. f_equal. unfold rules_for. apply filter_ext. intros r. unfold matches_atom. rewrite Hm.
  induction (matches r) as [|x l IH]; cbn [map existsb]; [reflexivity|]. rewrite IH. f_equal.
  destruct (Nat.eqb_spec (pi a) (pi x)) as [E|E].
  - apply Hinj in E. subst. symmetry. apply Nat.eqb_refl.
  - symmetry. apply Nat.eqb_neq. intros ->. apply E. reflexivity.
Qed.

(* ties: a rule placed earlier in the file wins over a later one of the same length *)
Theorem best_first_on_ties r1 r2 : r_len r1 = r_len r2 -> best [r1; r2] = Some r1.
Proof. intros H. cbn. unfold longer. rewrite H, Nat.ltb_irrefl. reflexivity. Qed.
