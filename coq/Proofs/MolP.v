(* The molecule parser (Model/Mol.v), for EVERY text and every atom oracle:
   - it is total: the while loop over '{' never runs out of the fuel the model gives it (each iteration consumes at least one character);
   - the element list of an accepted molecule alternates: a token is always directly followed by a stochastic object, except a last one --
     there are never two tokens in a row. *)
From Coq Require Import List ZArith QArith Ascii String Bool Lia.
From GBS Require Import Model.PyStr Model.Num Model.Bond Model.Token Model.DistFam Src.SrcDist Model.Stoch Model.Mol Proofs.TotalP Proofs.StochP.
Import ListNotations.
Open Scope nat_scope.

Section MolP.
  Variable valid_atom : str -> bool.
  Variable fprint : num -> str.

  Lemma parse_stoch_nil : exists e m, parse_stoch valid_atom [] = Err e m /\ e <> EFuel.
  Proof. unfold parse_stoch. cbn. eexists _, _. split; [reflexivity|discriminate]. Qed.

  Lemma tok0_not_fuel text : is_fuel (tok0 valid_atom text) = false.
  Proof. apply parse_token_total. Qed.

  Lemma last_descr_not_fuel e : is_fuel (last_descr_of e) = false.
  Proof. destruct e as [t|s]; cbn [last_descr_of]; [destruct (rev (k_bds t)); reflexivity|reflexivity]. Qed.

  (* no two tokens in a row; a token that is not last is followed by a stochastic object *)
  Fixpoint alternates (l : list melem) : Prop :=
    match l with
    | MTok _ :: ((MTok _ :: _) as r) => False
    | _ :: r => alternates r
    | [] => True
    end.
  Definition ends_with_stoch (l : list melem) : Prop := match rev l with MTok _ :: _ => False | _ => True end.

  Lemma alternates_app_stoch l s : alternates l -> alternates (l ++ [MStoch s]).
  Proof.
    induction l as [|a l IH]; intros H; [exact I|]. destruct a as [t|s']; cbn [app alternates] in *.
    - destruct l as [|b l']; [exact I|]. destruct b; [destruct H|]. apply IH. exact H.
    - destruct l as [|b l']; [exact I|]. apply IH. destruct b; exact H.
  Qed.
  Lemma alternates_app_tok l t : alternates l -> ends_with_stoch l -> alternates (l ++ [MTok t]).
  Proof.
    induction l as [|a l IH]; intros H He; [exact I|]. destruct l as [|b l'].
    - destruct a; [exfalso; exact He|exact I].
    - assert (He' : ends_with_stoch (b :: l')).
      { unfold ends_with_stoch in *. cbn [rev] in *. destruct (rev l' ++ [b])%list eqn:E; [destruct (rev l'); discriminate|]. cbn [app] in He. exact He. }
      change ((a :: b :: l') ++ [MTok t])%list with (a :: ((b :: l') ++ [MTok t]))%list.
      destruct a as [ta|sa]; cbn [alternates app] in *.
      + destruct b; [destruct H|]. apply IH; assumption.
      + apply IH; [destruct b; exact H|exact He'].
  Qed.
  Lemma ends_app_stoch l s : ends_with_stoch (l ++ [MStoch s]).
  Proof. unfold ends_with_stoch. rewrite rev_app_distr. exact I. Qed.

  Lemma is_fuel_bind' {A B} (r : result A) (f : A -> result B) : is_fuel r = false -> (forall a, r = OK a -> is_fuel (f a) = false) -> is_fuel (Bond.bind r f) = false.
  Proof. destruct r as [a|e m]; cbn [Bond.bind]; intros H1 H2; [apply H2; reflexivity|exact H1]. Qed.

  Lemma slice_to_0 (s : str) : slice s None (Some 0%Z) = [].
  Proof.
    unfold slice, norm_idx, len. change (0 <? 0)%Z with false. cbv iota.
    replace (Z.max 0 (Z.min (Z.of_nat (List.length s)) 0) - 0)%Z with 0%Z by lia. reflexivity.
  Qed.

  Lemma find_at_ge_m1 p s st : (-1 <= find_at p s st)%Z.
  Proof.
    unfold find_at. set (k := norm_idx (len s) st). assert (0 <= k)%Z by (unfold k, norm_idx; lia).
    destruct (find_from_range p (skipn (Z.to_nat k) s) k _ eq_refl) as [E|E]; lia.
  Qed.

  Lemma parse_stoch_prefix_ok text1 e st : parse_stoch valid_atom (slice text1 None (Some e)) = OK st -> (0 <= e)%Z -> (1 <= e)%Z /\ text1 <> [].
  Proof.
    intros H He. destruct parse_stoch_nil as (er & m & E & _). split.
    - destruct (Z.eq_dec e 0) as [->|]; [rewrite slice_to_0 in H; congruence|lia].
    - intros ->. assert (slice [] None (Some e) = []) by (unfold slice; rewrite firstn_nil; reflexivity). rewrite H0 in H. congruence.
  Qed.

  Theorem mol_loop_spec : forall fuel text elems, List.length text < fuel -> alternates elems -> ends_with_stoch elems ->
    is_fuel (mol_loop valid_atom fprint fuel text elems) = false /\
    forall rest elems', mol_loop valid_atom fprint fuel text elems = OK (rest, elems') -> alternates elems' /\ ends_with_stoch elems'.
  Proof.
    induction fuel as [|f IH]; intros text elems Hf Ha He; [lia|]. cbn [mol_loop].
    destruct (find (lit "{") text <? 0)%Z; [split; [reflexivity|intros rest elems' E; injection E as _ <-; auto]|].
    set (pre_token := strip (slice text None (Some (find (lit "{") text)))).
    set (text1 := strip (slice text (Some (find (lit "{") text)) None)).
    match goal with |- context [Bond.bind ?pre0 _] => set (PRE := pre0) end.
    assert (HPRE : is_fuel PRE = false).
    { unfold PRE. destruct pre_token as [|c cs]; [reflexivity|]. apply is_fuel_bind'; [apply tok0_not_fuel|]. intros p _.
      destruct (rev elems) as [|lst r]; [reflexivity|]. apply is_fuel_bind'; [apply last_descr_not_fuel|]. intros other _.
      destruct (k_bds p); [|destruct (existsb _ _); reflexivity]. apply is_fuel_bind'; [apply tok0_not_fuel|]. reflexivity. }
    destruct PRE as [pre|er m] eqn:EP; cbn [Bond.bind]; [|split; [exact HPRE|discriminate]].
    set (e0 := (find (lit "}") text1 + 1)%Z).
    set (e1 := if ((e0 <? len text1)%Z && match index text1 e0 with Some c => Ascii.eqb c (ch "|") | None => false end)%bool
               then (find_at (lit "|") text1 (e0 + 2) + 1)%Z else e0).
    assert (He1 : (0 <= e1)%Z).
    { unfold e1, e0. pose proof (find_ge_m1 (lit "}") text1). pose proof (find_at_ge_m1 (lit "|") text1 (find (lit "}") text1 + 1 + 2)). destruct (_ && _)%bool; lia. }
    pose proof (parse_stoch_total valid_atom (slice text1 None (Some e1))) as TS.
    destruct (parse_stoch valid_atom (slice text1 None (Some e1))) as [st|er m] eqn:ES; cbn [Bond.bind]; [|split; [exact TS|discriminate]].
    destruct (parse_stoch_prefix_ok _ _ _ ES He1) as [Hge Hne].
    assert (Hlen : List.length (strip (slice text1 (Some e1) None)) < f).
    { pose proof (slice_from_lt text1 e1 Hge Hne). pose proof (strip_by_length is_ws (slice text1 (Some e1) None)).
      pose proof (strip_by_length is_ws (slice text (Some (find (lit "{") text)) None)). pose proof (slice_from_le text (find (lit "{") text)).
      unfold strip in *. fold text1 in H1. lia. }
    match goal with |- context [Bond.bind ?el0 _] => set (EL := el0) end.
    assert (HEL : is_fuel EL = false /\ forall x, EL = OK x -> alternates x /\ ends_with_stoch x).
    { unfold EL. destruct pre as [[pt p]|].
      - destruct (Nat.ltb _ _).
        + split; [apply is_fuel_bind'; [apply tok0_not_fuel|reflexivity]|]. intros x Hx.
          apply bind_ok in Hx as (p2 & _ & Hx). injection Hx as <-.
          replace (elems ++ [MTok p2; MStoch st])%list with ((elems ++ [MTok p2]) ++ [MStoch st])%list by (rewrite <- app_assoc; reflexivity).
          split; [apply alternates_app_stoch, alternates_app_tok; assumption|apply ends_app_stoch].
        + split; [reflexivity|]. intros x Hx. injection Hx as <-.
          replace (elems ++ [MTok p; MStoch st])%list with ((elems ++ [MTok p]) ++ [MStoch st])%list by (rewrite <- app_assoc; reflexivity).
          split; [apply alternates_app_stoch, alternates_app_tok; assumption|apply ends_app_stoch].
      - split; [reflexivity|]. intros x Hx. injection Hx as <-. split; [apply alternates_app_stoch; assumption|apply ends_app_stoch]. }
    destruct HEL as [HEL1 HEL2]. destruct EL as [elems1|er m] eqn:EE; cbn [Bond.bind]; [|split; [exact HEL1|discriminate]].
    destruct (HEL2 elems1 eq_refl) as [A1 A2]. apply IH; assumption.
  Qed.

  Lemma parse_mixture_not_fuel raw : is_fuel (parse_mixture raw) = false.
  Proof.
    unfold parse_mixture. destruct (index raw 0); [|reflexivity]. destruct (negb _); [reflexivity|]. destruct (contains _ _).
    - destruct (py_float _); [|reflexivity]. destruct (_ || _)%bool; reflexivity.
    - destruct (py_float _); [|reflexivity]. destruct (num_lt0 _); reflexivity.
  Qed.

  Theorem parse_molecule_total text : is_fuel (parse_molecule valid_atom fprint text) = false.
  Proof.
    unfold parse_molecule. apply is_fuel_bind'.
    - destruct (0 <=? _)%Z; [|reflexivity]. destruct (strip (slice _ _ None)); [|reflexivity]. apply is_fuel_bind'; [apply parse_mixture_not_fuel|reflexivity].
    - intros [t mix] _. destruct (mol_loop_spec (S (List.length t)) t [] ltac:(lia) I I) as [F _].
      apply is_fuel_bind'; [exact F|]. intros [rest elems] _. destruct rest as [|c cs]; [reflexivity|].
      apply is_fuel_bind'; [apply tok0_not_fuel|]. intros tk _. apply is_fuel_bind'; [|reflexivity].
      destruct (rev elems) as [|lst r]; [reflexivity|]. destruct (k_bds tk); [|reflexivity].
      apply is_fuel_bind'; [apply last_descr_not_fuel|]. intros other _. apply tok0_not_fuel.
  Qed.

  (* accepted molecules: the elements alternate (never two tokens in a row) *)
  Theorem parse_molecule_alternates text m : parse_molecule valid_atom fprint text = OK m -> alternates (ml_elems m).
  Proof.
    unfold parse_molecule. intros H. apply bind_ok in H as ([t mix] & _ & H).
    apply bind_ok in H as ([rest elems] & HL & H).
    destruct (mol_loop_spec (S (List.length t)) t [] ltac:(lia) I I) as [_ S2]. destruct (S2 rest elems HL) as [A1 A2].
    destruct rest as [|c cs]; [injection H as <-; exact A1|].
    apply bind_ok in H as (tk & _ & H). apply bind_ok in H as (tk' & _ & H). injection H as <-. cbn [ml_elems].
    apply alternates_app_tok; assumption.
  Qed.
End MolP.
