(* C01: printing without extensions = erasing every |...| segment of the canonical string. *)
From Coq Require Import List ZArith QArith Ascii String Bool Lia.
From GBS Require Import Model.PyStr Model.Num Model.Bond Model.Token Model.Render.
Import ListNotations.

Lemma erase_aux_barfree_outside s rest : barfree s = true -> erase_aux false (s ++ rest) = (s ++ erase_aux false rest)%list.
Proof.
  induction s as [|c s IH]; intros H; cbn [app erase_aux]; [reflexivity|].
  cbn [barfree forallb] in H. apply andb_true_iff in H as [H1 H2]. apply negb_true_iff in H1. rewrite H1. cbn [app]. f_equal. apply IH. exact H2.
Qed.

Lemma erase_aux_barfree_inside s rest : barfree s = true -> erase_aux true (s ++ rest) = erase_aux true rest.
Proof.
  induction s as [|c s IH]; intros H; cbn [app erase_aux]; [reflexivity|].
  cbn [barfree forallb] in H. apply andb_true_iff in H as [H1 H2]. apply negb_true_iff in H1. rewrite H1. apply IH. exact H2.
Qed.

Lemma erase_ext_segment s rest : barfree s = true -> erase_aux false (bar :: s ++ [bar] ++ rest) = erase_aux false rest.
Proof.
  intros H. cbn [erase_aux]. unfold bar at 1. rewrite Ascii.eqb_refl. cbn [negb].
  rewrite erase_aux_barfree_inside by exact H. cbn [app erase_aux]. rewrite Ascii.eqb_refl. reflexivity.
Qed.

(* the general statement: whatever is rendered from bar-free chunks and bar-free extension texts *)
Theorem erase_render ps : forallb part_ok ps = true -> erase_ext (render true ps) = render false ps.
Proof.
  unfold erase_ext, render. induction ps as [|p ps IH]; intros H; cbn [map List.concat]; [reflexivity|].
  cbn [forallb] in H. apply andb_true_iff in H as [Hp Hps]. specialize (IH Hps).
  destruct p as [s|s]; cbn [render_part part_ok] in *.
  - rewrite erase_aux_barfree_outside by exact Hp. rewrite IH. reflexivity.
  - replace ((bar :: s ++ [bar]) ++ List.concat (map (render_part true) ps))%list
      with (bar :: s ++ [bar] ++ List.concat (map (render_part true) ps))%list by (cbn [app]; rewrite <- app_assoc; reflexivity).
    rewrite (erase_ext_segment s _ Hp). exact IH.
Qed.

Lemma barfree_app a b : barfree (a ++ b) = barfree a && barfree b.
Proof. apply forallb_app. Qed.

Theorem render_false_barfree ps : forallb part_ok ps = true -> barfree (render false ps) = true.
Proof.
  unfold render. induction ps as [|p ps IH]; intros H; cbn [map List.concat]; [reflexivity|].
  cbn [forallb] in H. apply andb_true_iff in H as [Hp Hps]. rewrite barfree_app, (IH Hps), andb_true_r.
  destruct p as [s|s]; cbn [render_part part_ok] in *; [exact Hp|reflexivity].
Qed.

Lemma forallb_app_parts a b : forallb part_ok (a ++ b) = forallb part_ok a && forallb part_ok b.
Proof. apply forallb_app. Qed.

(* ---- digits are bar-free ---- *)
Lemma digit_not_bar k : (k < 10)%nat -> Ascii.eqb (ascii_of_nat (k + 48)) bar = false.
Proof. intros H. do 10 (destruct k as [|k]; [reflexivity|]). lia. Qed.

Lemma pos_digits_barfree : forall fuel n acc, (0 <= n)%Z -> barfree acc = true -> barfree (pos_digits_aux fuel n acc) = true.
Proof.
  induction fuel as [|f IH]; intros n acc Hn Ha; cbn [pos_digits_aux]; [exact Ha|].
  assert (Hd : barfree (ascii_of_nat (Z.to_nat (n mod 10) + 48) :: acc) = true).
  { cbn [barfree forallb]. rewrite digit_not_bar; [exact Ha|]. pose proof (Z.mod_pos_bound n 10 ltac:(lia)). lia. }
  destruct (n <? 10)%Z; [exact Hd|]. apply IH; [apply Z.div_pos; lia|exact Hd].
Qed.

Lemma z_to_str_barfree z : barfree (z_to_str z) = true.
Proof.
  unfold z_to_str. destruct (z <? 0)%Z eqn:E.
  - cbn [barfree forallb]. change (negb (Ascii.eqb (ch "-") bar)) with true. cbn [andb]. apply pos_digits_barfree; [apply Z.ltb_lt in E; lia|reflexivity].
  - apply pos_digits_barfree; [apply Z.ltb_ge in E; lia|reflexivity].
Qed.

(* ---- descriptors ---- *)
Section Descr.
  Variable fprint : num -> str.
  Hypothesis fprint_barfree : forall x, barfree (fprint x) = true.    (* Python's repr of a float contains no '|' *)

  Lemma barfree_firstn n s : barfree s = true -> barfree (firstn n s) = true.
  Proof. revert n; induction s as [|c s IH]; intros [|n] H; cbn [firstn]; auto. cbn [barfree forallb] in *. apply andb_true_iff in H as [H1 H2]. rewrite H1. apply IH. exact H2. Qed.
  Lemma barfree_skipn n s : barfree s = true -> barfree (skipn n s) = true.
  Proof. revert n; induction s as [|c s IH]; intros [|n] H; cbn [skipn]; auto. cbn [barfree forallb] in H. apply andb_true_iff in H as [_ H2]. apply IH. exact H2. Qed.
  Lemma barfree_slice s a b : barfree s = true -> barfree (slice s a b) = true.
  Proof. intros H. unfold slice. apply barfree_firstn, barfree_skipn. exact H. Qed.

  Lemma weight_text_barfree d w : weight_text_of fprint d = Some w -> barfree w = true.
  Proof.
    unfold weight_text_of. destruct (d_trans d) as [l|].
    - intros H; injection H as <-. apply barfree_slice. induction l as [|t l IH]; cbn [map List.concat]; [reflexivity|].
      rewrite !barfree_app, fprint_barfree, IH. reflexivity.
    - destruct (num_eqb _ _); [discriminate|]. intros H; injection H as <-. apply fprint_barfree.
  Qed.

  (* symbols are $ < > or empty *)
  Theorem descr_parts_ok d : barfree (d_sym d) = true -> forallb part_ok (descr_parts fprint d) = true.
  Proof.
    intros Hs. unfold descr_parts. rewrite !forallb_app_parts. cbn [forallb part_ok andb].
    rewrite !barfree_app, Hs. change (barfree (lit "[")) with true. change (barfree (lit "]")) with true.
    assert (barfree (id_str (d_id d)) = true) by (destruct (d_id d); [apply z_to_str_barfree|reflexivity]). rewrite H. cbn [andb].
    destruct (weight_text_of fprint d) as [w|] eqn:E; cbn [forallb part_ok andb]; [rewrite (weight_text_barfree d w E)|]; reflexivity.
  Qed.

  (* the final strip of the descriptor printer is the identity on a bracketed text *)
  Lemma lstrip_nonws f c s : f c = false -> lstrip_by f (c :: s) = c :: s.
  Proof. intros H. cbn [lstrip_by]. rewrite H. reflexivity. Qed.
  Lemma strip_bracketed s : strip (lit "[" ++ s ++ lit "]") = (lit "[" ++ s ++ lit "]")%list.
  Proof.
    change (lit "[" ++ s ++ lit "]")%list with (ch "[" :: s ++ [ch "]"])%list.
    unfold strip, strip_by, rstrip_by. rewrite lstrip_nonws by reflexivity.
    replace (rev (ch "[" :: s ++ [ch "]"])) with (ch "]" :: rev s ++ [ch "["])%list by (cbn [rev]; rewrite rev_app_distr; reflexivity).
    rewrite lstrip_nonws by reflexivity. cbn [rev]. rewrite rev_app_distr, rev_involutive. reflexivity.
  Qed.

  Lemma slice_drop_last s : slice s None (Some (-1)%Z) = firstn (List.length s - 1) s.
  Proof.
    unfold slice, norm_idx, len. cbn [skipn Z.to_nat]. f_equal.
    destruct (List.length s) as [|n] eqn:E; cbn [Z.of_nat]; [reflexivity|]. rewrite <- E.
    assert ((-1 <? 0)%Z = true) by reflexivity. rewrite H. lia.
  Qed.

  Lemma drop_last_app (pre x : str) : x <> [] -> firstn (List.length (pre ++ x) - 1) (pre ++ x) = (pre ++ firstn (List.length x - 1) x)%list.
  Proof.
    intros Hx. rewrite app_length, firstn_app. assert (1 <= List.length x)%nat by (destruct x; [congruence|cbn; lia]).
    rewrite firstn_all2 by lia. f_equal. f_equal. lia.
  Qed.

  Lemma strip_ends x t t' : x = (ch "[" :: t)%list -> rev x = (ch "]" :: t')%list -> strip x = x.
  Proof.
    intros H1 H2. unfold strip, strip_by, rstrip_by. rewrite H1, lstrip_nonws by reflexivity. rewrite <- H1, H2, lstrip_nonws by reflexivity.
    rewrite <- H2. apply rev_involutive.
  Qed.

  Ltac strip_id :=
    match goal with
    | |- strip ?x = _ =>
        erewrite (strip_ends x);
        [ | cbn [lit list_ascii_of_string app]; repeat rewrite <- app_assoc; cbn [app]; reflexivity
          | cbn [lit list_ascii_of_string]; repeat rewrite rev_app_distr; cbn [rev app]; reflexivity ]
    end.

  Ltac fin := unfold bar; cbn [lit list_ascii_of_string app ch]; repeat (rewrite <- app_assoc; cbn [app]); reflexivity.

  (* the descriptor printer IS the rendering of its parts (an empty transition list is rejected by the parser) *)
  Theorem print_descr_is_render ext d : d_trans d <> Some [] -> print_descr fprint ext d = render ext (descr_parts fprint d).
  Proof.
    intros Hne. unfold print_descr, descr_parts, render, weight_text_of.
    destruct (d_trans d) as [l|] eqn:Et.
    - destruct ext; cbn [andb map List.concat render_part app].
      + rewrite slice_drop_last.
        set (nums := List.concat (map (fun t => fprint t ++ lit " ") l)).
        assert (Hn : nums <> []).
        { destruct l as [|t l]; [congruence|]. unfold nums. cbn [map List.concat]. destruct (fprint t); cbn; discriminate. }
        replace ((lit "[" ++ d_sym d ++ id_str (d_id d)) ++ lit "|" ++ nums)%list with (((lit "[" ++ d_sym d ++ id_str (d_id d)) ++ lit "|") ++ nums)%list by (rewrite <- app_assoc; reflexivity).
        rewrite (drop_last_app _ nums Hn), <- slice_drop_last. rewrite app_nil_r.
        strip_id. fin.
      + rewrite app_nil_r. strip_id. fin.
    - destruct (num_eqb (d_weight d) (Fin 1)) eqn:Ew; cbn [negb].
      + rewrite andb_false_r. cbn [map List.concat render_part app]. rewrite app_nil_r. strip_id. fin.
      + destruct ext; cbn [andb map List.concat render_part app]; rewrite app_nil_r; strip_id; fin.
  Qed.

  (* hence: for every descriptor, the extension-free form is the canonical form with its |...| segment erased, and contains no '|' *)
  Theorem descr_noext_is_erasure d : barfree (d_sym d) = true -> d_trans d <> Some [] ->
    print_descr fprint false d = erase_ext (print_descr fprint true d) /\ barfree (print_descr fprint false d) = true.
  Proof.
    intros Hs Hne. rewrite !print_descr_is_render by exact Hne. split.
    - symmetry. apply erase_render. apply descr_parts_ok. exact Hs.
    - apply render_false_barfree. apply descr_parts_ok. exact Hs.
  Qed.
End Descr.
