(* Termination of the residue-level generator model (Model/Gen.v): every iteration of the capping loop and of the growth loop consumes a
   random decision, so with the fuel the model hands them (one more than the number of picks left) the distinguished OutOfFuel result is
   unreachable -- for every element list, every pick stream and every list of drawn targets. *)
From Coq Require Import List ZArith QArith Bool Arith Lia.
From GBS Require Import Model.PyStr Model.Num Model.Bond Model.Select Model.Gen Proofs.GenP.
Import ListNotations.
Open Scope nat_scope.

Definition safe_at {A} (m : run A) (st : rstate) : Prop :=
  m st <> OutOfFuel /\ forall a st', m st = Done a st' -> List.length (picks st') <= List.length (picks st).
Definition strict_at {A} (m : run A) (st : rstate) : Prop :=
  forall a st', m st = Done a st' -> List.length (picks st') < List.length (picks st).

Lemma safe_ret {A} (a : A) st : safe_at (ret a) st.
Proof. split; [discriminate|]. intros b st' E. injection E as _ <-. lia. Qed.
Lemma safe_fail {A} e s st : safe_at (@fail A e s) st.
Proof. split; [discriminate|]. intros b st' E. discriminate. Qed.
Lemma safe_lift {A} (r : result A) st : safe_at (lift r) st.
Proof. destruct r; [apply safe_ret|apply safe_fail]. Qed.
Lemma safe_bind {A B} (m : run A) (k : A -> run B) st :
  safe_at m st -> (forall a st1, m st = Done a st1 -> safe_at (k a) st1) -> safe_at (rbind m k) st.
Proof.
  intros [H1 H2] Hk. unfold safe_at, rbind. destruct (m st) as [a st1| | | | |] eqn:Em; try (split; [discriminate|intros ? ? E; discriminate]).
  - destruct (Hk a st1 eq_refl) as [K1 K2]. split; [exact K1|]. intros b st' E. specialize (K2 b st' E). specialize (H2 a st1 eq_refl). lia.
  - congruence.
Qed.
Lemma safe_with_fuel {A} (F : nat -> run A) st : safe_at (F (S (List.length (picks st)))) st -> safe_at (with_fuel F) st.
Proof. intros H. exact H. Qed.
Lemma safe_le {A} (m : run A) st a st' : safe_at m st -> m st = Done a st' -> List.length (picks st') <= List.length (picks st).
Proof. intros [_ H]. apply H. Qed.

Lemma pick_strict c p st : strict_at (pick c p) st.
Proof.
  intros a st'. unfold pick. destruct (picks st) as [|k rest] eqn:Ep; [discriminate|].
  destruct (nth_error c k); [|discriminate]. destruct (nth_error p k); [|discriminate].
  destruct (Qle_bool q 0); [discriminate|]. intros E. injection E as _ <-. cbn [picks List.length]. lia.
Qed.
Lemma pick_safe c p st : safe_at (pick c p) st.
Proof.
  split.
  - unfold pick. destruct (picks st); [discriminate|]. destruct (nth_error c n); [|discriminate].
    destruct (nth_error p n); [|discriminate]. destruct (Qle_bool q 0); discriminate.
  - intros a st' E. apply pick_strict in E. lia.
Qed.
Lemma draw_safe st : safe_at draw st.
Proof. split; unfold draw; destruct (targets st); try discriminate. intros a st' E. injection E as _ <-. cbn [picks]. lia. Qed.

Lemma choose_safe bds bond st : safe_at (choose bds bond) st /\ strict_at (choose bds bond) st.
Proof.
  unfold choose. destruct (map_opt _ _); [|split; [apply safe_fail|intros ? ? E; discriminate]].
  destruct (compat_idx bds bond); [split; [apply safe_fail|intros ? ? E; discriminate]|].
  destruct (Qeq_bool _ 0); [split; [apply safe_fail|intros ? ? E; discriminate]|].
  destruct (existsb _ _); [split; [apply safe_fail|intros ? ? E; discriminate]|].
  split; [apply pick_safe|apply pick_strict].
Qed.

Lemma gen_token_safe tok ei prefix st : safe_at (gen_token tok ei prefix) st.
Proof.
  unfold gen_token. destruct (negb (t_ok tok)); [apply safe_fail|]. destruct prefix as [g|]; [|apply safe_lift].
  destruct (m_open g) as [|a [|b r]]; try apply safe_fail. apply safe_bind; [apply choose_safe|]. intros j st1 _. apply safe_lift.
Qed.

Lemma get_start_safe s ei prefix st : safe_at (get_start s ei prefix) st.
Proof.
  unfold get_start. destruct prefix as [g|].
  - destruct (m_open g) as [|a [|b r]]; try apply safe_fail. destruct (negb _); [apply safe_fail|apply safe_ret].
  - destruct (negb _); [apply safe_fail|]. apply safe_bind; [apply choose_safe|]. intros k st1 _.
    destruct (nth_error (endb s) k) as [[[ti bi] d]|]; [|apply safe_fail]. destruct (nth_error (s_end s) ti); [|apply safe_fail].
    destruct (negb _); [apply safe_fail|apply safe_lift].
Qed.

Lemma bind_strict {A B} (m : run A) (k : A -> run B) st :
  strict_at m st -> (forall a st1, m st = Done a st1 -> safe_at (k a) st1) -> strict_at (rbind m k) st.
Proof.
  intros H1 H2 b st' E. apply rbind_done in E as (a & st1 & E1 & E2). pose proof (H1 a st1 E1). pose proof (safe_le _ _ _ _ (H2 a st1 E1) E2). lia.
Qed.

Ltac add_unit_cont :=
  let i := fresh "i" in let st1 := fresh "st1" in let sb := fresh "sb" in
  let tr := fresh "tr" in let w := fresh "w" in let toks := fresh "toks" in let ti := fresh "ti" in
  intros i st1 _; match goal with |- safe_at (match nth_error ?l i with _ => _ end) _ => destruct (nth_error l i) as [sb|]; [|apply safe_fail] end;
  apply safe_bind;
  [ destruct (qtrans (o_d sb)) as [[tr|]|]; [destruct (qw (o_d sb)) as [w|]| |]; try apply safe_fail; [|apply choose_safe];
    destruct (Qeq_bool w 0); [apply safe_fail|]; destruct (existsb _ _); [apply safe_fail|apply pick_safe]
  | let k := fresh "k" in let st2 := fresh "st2" in
    intros k st2 _; cbv zeta;
    match goal with |- safe_at (match ?x with _ => _ end) _ => destruct x as [[[? toks] [[ti ?] ?]]|]; [|apply safe_fail] end;
    destruct (nth_error toks ti); [apply safe_lift|apply safe_fail] ].

Lemma add_unit_safe s ei g st : safe_at (add_unit s ei g) st /\ strict_at (add_unit s ei g) st.
Proof.
  unfold add_unit. destruct (choose_safe (map o_d (m_open g)) None st) as [C1 C2]. split.
  - apply safe_bind; [exact C1|]. add_unit_cont.
  - apply bind_strict; [exact C2|]. add_unit_cont.
Qed.

Lemma cap_loop_safe s ei : forall fuel g st, List.length (picks st) < fuel -> safe_at (cap_loop fuel s ei g) st.
Proof.
  induction fuel as [|f IH]; intros g st Hf; [lia|]. cbn [cap_loop]. destruct (m_open g) as [|o os] eqn:Eo; [apply safe_ret|].
  destruct (choose_safe (map o_d (o :: os)) None st) as [C1 C2]. apply safe_bind; [exact C1|]. intros i st1 E1. specialize (C2 i st1 E1).
  destruct (nth_error (o :: os) i) as [sb|]; [|apply safe_fail].
  destruct (choose_safe (descrs_of (endb s)) (Some (o_d sb)) st1) as [D1 D2]. apply safe_bind; [exact D1|]. intros k st2 E2. specialize (D2 k st2 E2).
  destruct (nth_error (endb s) k) as [[[ti bi] d]|]; [|apply safe_fail]. destruct (nth_error (s_end s) ti) as [tok|]; [|apply safe_fail].
  apply safe_bind; [apply safe_lift|]. intros g' st3 E3. destruct (attach g i tok (mkref ei KEnd ti) bi); cbn [lift] in E3; [|discriminate].
  injection E3 as _ <-. apply IH. lia.
Qed.

Lemma finalize_safe s ei g st : safe_at (finalize s ei g) st.
Proof.
  unfold finalize. destruct (is_empty_terminal (s_right s)); [apply safe_with_fuel, cap_loop_safe; lia|].
  apply safe_bind; [apply safe_lift|]. intros inv st1 _. apply safe_bind; [apply choose_safe|]. intros i st2 _.
  destruct (nth_error (m_open g) i) as [term|]; [|apply safe_fail].
  apply safe_bind; [apply safe_with_fuel, cap_loop_safe; lia|]. intros g2 st3 _. apply safe_ret.
Qed.

Lemma grow_loop_safe s ei start T : forall fuel g units st, List.length (picks st) < fuel -> safe_at (grow_loop fuel s ei start T g units) st.
Proof.
  induction fuel as [|f IH]; intros g units st Hf; [lia|]. cbn [grow_loop].
  destruct (add_unit_safe s ei g st) as [A1 A2]. apply safe_bind; [exact A1|]. intros g1 st1 E1. specialize (A2 g1 st1 E1).
  destruct (m_open g1) as [|o os]; [apply safe_ret|].
  apply safe_bind; [apply finalize_safe|]. intros fin st2 E2. pose proof (safe_le _ _ _ _ (finalize_safe s ei g1 st1) E2).
  destruct (Qle_bool _ T); [apply IH; lia|apply safe_ret].
Qed.

Lemma gen_stoch_safe s ei prefix st : safe_at (gen_stoch s ei prefix) st.
Proof.
  unfold gen_stoch. destruct (negb (s_generable s)); [apply safe_fail|].
  destruct (match prefix with Some g => Nat.eqb (List.length (m_open g)) 1 | None => true end); [|apply safe_fail].
  apply safe_bind; [apply get_start_safe|]. intros g0 st1 _. apply safe_bind; [apply draw_safe|]. intros T st2 _.
  apply safe_bind; [apply safe_with_fuel, grow_loop_safe; lia|]. intros [[fin units] ex] st3 _. apply safe_ret.
Qed.

Lemma gen_elems_safe : forall els ei prefix infos st, safe_at (gen_elems els ei prefix infos) st.
Proof.
  induction els as [|[t|s] r IH]; intros ei prefix infos st; cbn [gen_elems]; [apply safe_ret| |].
  - apply safe_bind; [apply gen_token_safe|]. intros g st1 _. apply IH.
  - apply safe_bind; [apply gen_stoch_safe|]. intros gi st1 _. apply IH.
Qed.

(* for every element list, pick stream and list of drawn targets *)
Theorem run_gen_never_out_of_fuel els pk tg : run_gen els pk tg <> OutOfFuel.
Proof. unfold run_gen, gen_molecule. apply gen_elems_safe. Qed.

(* ------------------------------------------------------------------------------------------ *)
(* a bound that does not depend on the random stream: every growth step adds at least the mass of the lightest token, growth stops at the
   first unit whose accumulated mass exceeds the drawn target -- so at most T / mmin + 1 units are added *)
Lemma total_ge_len l m : Forall (fun x => m <= x)%Q l -> (inject_Z (Z.of_nat (List.length l)) * m <= total l)%Q.
Proof.
  induction l as [|x l IH]; intros H.
  - cbn [List.length Z.of_nat total fold_right]. unfold total. cbn [fold_right]. rewrite Qmult_0_l. apply Qle_refl.
  - inversion H as [|y z Hx Hl]; subst. specialize (IH Hl). rewrite total_cons.
    replace (Z.of_nat (List.length (x :: l))) with (1 + Z.of_nat (List.length l))%Z by (cbn [List.length]; lia).
    rewrite inject_Z_plus, Qmult_plus_distr_l, Qmult_1_l. apply Qplus_le_compat; assumption.
Qed.

Lemma In_firstn {A} (l : list A) : forall n x, In x (firstn n l) -> In x l.
Proof.
  induction l as [|y l IH]; intros n x H; destruct n as [|n]; cbn [firstn] in H; try (destruct H; fail).
  destruct H as [H|H]; [left; exact H|right; eapply IH; exact H].
Qed.

Lemma units_bounded base rts us T ex mmin front last :
  stop_ok T us ex -> units_ok base rts us -> Forall (fun rt => mmin <= mass_of rt)%Q rts -> (0 <= base)%Q ->
  us = front ++ [last] -> front <> [] -> (inject_Z (Z.of_nat (List.length front)) * mmin <= T)%Q.
Proof.
  intros (front' & last' & E' & F & _) [HL HU] Hm Hb E Hne. rewrite E in E'. apply app_inj_tail in E' as [<- <-].
  destruct (exists_last Hne) as (fr & u & Efr). subst front.
  assert (Hu : nth_error us (List.length fr) = Some u).
  { rewrite E, <- app_assoc. rewrite nth_error_app2, Nat.sub_diag by lia. reflexivity. }
  specialize (HU _ _ Hu). apply Forall_app in F as [_ Fu]. inversion Fu as [|x y Hx _]; subst. apply Qle_bool_iff in Hx.
  rewrite app_length. cbn [List.length]. replace (List.length fr + 1) with (S (List.length fr)) by lia.
  assert (Hlen : List.length (firstn (S (List.length fr)) rts) = S (List.length fr)).
  { apply firstn_length_le. rewrite HL, !app_length. cbn [List.length]. lia. }
  eapply Qle_trans; [|exact Hx]. rewrite HU.
  assert (Hf : Forall (fun x => mmin <= x)%Q (map mass_of (firstn (S (List.length fr)) rts))).
  { apply Forall_forall. intros x Hx'. apply in_map_iff in Hx' as (rt & <- & Hrt). rewrite Forall_forall in Hm. apply Hm. eapply In_firstn; eauto. }
  pose proof (total_ge_len _ _ Hf) as Ht. rewrite map_length, Hlen in Ht.
  eapply Qle_trans; [exact Ht|]. rewrite <- (Qplus_0_l (total _)) at 1. apply Qplus_le_compat; [exact Hb|apply Qle_refl].
Qed.

(* for one stochastic object, whatever the picks: (number of units - 1) * (lightest token) <= drawn target *)
Theorem gen_stoch_units_bounded s ei prefix st gi st' mmin front last :
  (forall g, prefix = Some g -> GInv [] g) -> gen_stoch s ei prefix st = Done gi st' ->
  (forall tok, In tok (s_rep s) \/ In tok (s_end s) -> mmin <= t_mass tok)%Q ->
  si_units (snd gi) = front ++ [last] -> front <> [] ->
  (inject_Z (Z.of_nat (List.length front)) * mmin <= si_target (snd gi))%Q.
Proof.
  intros Hp E Hm Eu Hne. pose proof (gen_stoch_post s ei prefix Hp st gi st' E) as (_ & st0 & rts & caps & _ & _ & Fu & _ & Hs & Hu & _).
  eapply units_bounded; [exact Hs|exact Hu| |apply Qle_refl|exact Eu|exact Hne].
  eapply Forall_impl; [|exact Fu]. intros rt (_ & [[_ H]|[_ H]]); unfold mass_of; apply Hm; [left|right]; eapply nth_error_In; eauto.
Qed.
