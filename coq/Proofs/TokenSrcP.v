(* Tie T for the token parser: Src/SrcToken.v holds every string expression and decision of SmilesToken.__init__ and of
   _push_pop_atom_branch, and the two atom letter tables, REGENERATED from token.py (statement skeleton checked by the translator).  The two
   passes rebuilt from them are proved equal to Model/Token.v's scan / bind / parse_token -- the functions of the C02 and C15 theorems. *)
From Coq Require Import List ZArith QArith Ascii String Bool Lia.
From GBS Require Import Model.PyStr Model.Num Model.Bond Model.Token Src.SrcToken Proofs.StrP.
Import ListNotations.
Open Scope Z_scope.

(* ---- slices of a text whose first characters are known ---- *)
Lemma slice_prefix (a b : str) : slice (a ++ b) None (Some (len a)) = a.
Proof.
  unfold slice, norm_idx. rewrite len_app. pose proof (len_nonneg a). pose proof (len_nonneg b).
  destruct (len a <? 0) eqn:E; [apply Z.ltb_lt in E; lia|].
  replace (Z.max 0 (Z.min (len a + len b) (len a)) - 0) with (len a) by lia.
  unfold len. rewrite Nat2Z.id. cbn [Z.to_nat skipn]. rewrite firstn_app, firstn_all, Nat.sub_diag. cbn [firstn]. apply app_nil_r.
Qed.
Lemma first2_is c c2 (r : str) : slice (c :: c2 :: r) None (Some 2) = [c; c2].
Proof. change (c :: c2 :: r) with ([c; c2] ++ r). change 2 with (len [c; c2]). apply slice_prefix. Qed.
Lemma rest2_is c c2 (r : str) : tk_rest2 (c :: c2 :: r) = r.
Proof. unfold tk_rest2. change (c :: c2 :: r) with ([c; c2] ++ r). change 2 with (len [c; c2]). apply slice_tail. Qed.
Lemma rest1_is c (r : str) : tk_rest1 (c :: r) = r.
Proof. unfold tk_rest1. change (c :: r) with ([c] ++ r). change 1 with (len [c]). apply slice_tail. Qed.

Lemma more_is (cur : str) : tk_more cur = match cur with [] => false | _ => true end.
Proof. unfold tk_more. destruct cur; [reflexivity|]. rewrite len_cons. pose proof (len_nonneg cur). apply Z.ltb_lt. lia. Qed.
Lemma len_pos_is (s : str) : Z.ltb 0 (len s) = match s with [] => false | _ => true end.
Proof. apply more_is. Qed.
Lemma len_ne0_is (s : str) : negb (Z.eqb (len s) 0) = match s with [] => false | _ => true end.
Proof. destruct s; [reflexivity|]. rewrite len_cons. pose proof (len_nonneg s). apply negb_true_iff, Z.eqb_neq. lia. Qed.

Lemma double_is c (rest : str) : tk_double (c :: rest) = match rest with c2 :: _ => is_double c c2 | [] => false end.
Proof.
  unfold tk_double. destruct rest as [|c2 r]; [reflexivity|].
  rewrite first2_is, !len_cons. pose proof (len_nonneg r).
  replace (Z.ltb 1 (1 + (1 + len r))) with true by (symmetry; apply Z.ltb_lt; lia).
  unfold double_letters, is_double. cbn [existsb str_eqb lit list_ascii_of_string andb]. rewrite !andb_true_r, orb_false_r. reflexivity.
Qed.

Section TokenSrc.
  Variable valid_atom : str -> bool.

  Definition flush_src (sub : str) (els : list tel) : list tel := if tk_flush sub then TStr sub :: els else els.
  Definition flush_last_src (sub : str) (els : list tel) : list tel := if tk_flush_last sub then TStr sub :: els else els.
  Lemma flush_is sub els : flush_src sub els = flush sub els /\ flush_last_src sub els = flush sub els.
  Proof. unfold flush_src, flush_last_src, flush, tk_flush, tk_flush_last. rewrite len_ne0_is, len_pos_is. destruct sub; split; reflexivity. Qed.

  (* ---- first pass ---- *)
  Fixpoint scan_src (fuel : nat) (cur sub : str) (els : list tel) : result (list tel) :=
    match fuel with
    | O => Err EFuel "scan"
    | S f =>
        if tk_more cur then
          if tk_double cur then scan_src f (tk_rest2 cur) [] (TAtom (slice cur None (Some 2)) :: flush_src sub els)
          else match cur with c :: _ => scan1_src f c cur sub els | [] => Err EOther "unreachable" end
        else OK (rev (flush_last_src sub els))
    end
  with scan1_src (fuel : nat) (c : ascii) (cur sub : str) (els : list tel) : result (list tel) :=
    match fuel with
    | O => Err EFuel "scan"
    | S f =>
        if tk_single c then scan_src f (tk_rest1 cur) [] (TAtom [c] :: flush_src sub els)
        else if tk_open c then
          if tk_unclosed cur then Err ERuntime "opening '[' but no closing ']'" else
          let tok := tk_group cur in
          let cur' := tk_after_group cur in
          if tk_is_descr tok then scan_src f cur' (sub ++ tok) els
          else if valid_atom tok then scan_src f cur' [] (TAtom tok :: flush_src sub els)
          else Err ERuntime "invalid atom"
        else scan_src f (tk_rest1 cur) (sub ++ [c]) els
    end.

  Theorem scan_is_source : forall fuel,
    (forall cur sub els, scan_src fuel cur sub els = scan valid_atom fuel cur sub els) /\
    (forall c rest sub els, scan1_src fuel c (c :: rest) sub els = scan1 valid_atom fuel c rest sub els).
  Proof.
    induction fuel as [|f [IH IH1]]; [split; reflexivity|]. split.
    - intros cur sub els. cbn [scan_src scan]. rewrite more_is. destruct cur as [|c rest].
      + destruct (flush_is sub els) as [_ El]. rewrite El. reflexivity.
      + rewrite double_is. destruct rest as [|c2 rest2]; [apply IH1|].
        destruct (is_double c c2); [|apply IH1]. rewrite rest2_is, first2_is, IH. destruct (flush_is sub els) as [Ef _]. rewrite Ef. reflexivity.
    - intros c rest sub els. cbn [scan1_src scan1]. unfold tk_single, single_letter_set. fold single_letters.
      destruct (flush_is sub els) as [Ef _]. rewrite Ef, rest1_is, !IH.
      destruct (in_set single_letters c); [reflexivity|]. unfold tk_open. destruct (Ascii.eqb c (ch "[")); [|reflexivity].
      cbv zeta. unfold tk_unclosed, tk_group, tk_after_group, tk_is_descr, has_descr_char. rewrite ?IH. reflexivity.
  Qed.

  (* ---- _push_pop_atom_branch ---- *)
  Fixpoint pushpop_src (s : str) (st : list Z) : result (list Z) :=
    match s with
    | [] => OK st
    | c :: s' =>
        do st1 <- (if pp_push c then match st with top :: _ => OK (top :: st) | [] => Err EIndex "atom_to_bond[-1]" end else OK st);
        do st2 <- (if pp_pop c then match st1 with _ :: st' => OK st' | [] => Err EIndex "pop from empty list" end else OK st1);
        pushpop_src s' st2
    end.
  Lemma pushpop_is_source : forall s st, pushpop_src s st = pushpop s st.
  Proof.
    induction s as [|c s IH]; intros st; [reflexivity|]. cbn [pushpop_src pushpop]. unfold pp_push, pp_pop.
    destruct (Ascii.eqb c (ch "(")) eqn:E1.
    - apply Ascii.eqb_eq in E1. subst c. change (Ascii.eqb (ch "(") (ch ")")) with false. destruct st; cbn [Bond.bind]; [reflexivity|apply IH].
    - cbn [Bond.bind]. destruct (Ascii.eqb c (ch ")")); [destruct st; cbn [Bond.bind]; [reflexivity|apply IH]|cbn [Bond.bind]; apply IH].
  Qed.

  (* ---- second pass ---- *)
  Definition cut_src (stop fol : str) : str := if tk_stop_in stop fol then tk_cut_at stop fol else fol.

  Fixpoint bind_src (fuel : nat) (off : Z) (todo : list tel) (s : pstate) : result pstate :=
    match fuel with
    | O => Err EFuel "bind"
    | S f =>
        let pos := List.length (p_done s) in
        let n := (List.length (p_done s) + List.length todo)%nat in
        if tk_in_range pos n then
          match todo with
          | [] => Err EOther "unreachable"
          | TAtom a :: rest =>
              match p_stack s with
              | [] => Err EIndex "atom_to_bond[-1]"
              | _ :: st' =>
                  bind_src f off rest {| p_done := TAtom a :: p_done s; p_natoms := p_natoms s + 1; p_stack := p_natoms s :: st'; p_bds := p_bds s |}
              end
          | TBond d :: rest => bind_src f off rest {| p_done := TBond d :: p_done s; p_natoms := p_natoms s; p_stack := p_stack s; p_bds := p_bds s |}
          | TStr el :: rest =>
              if tk_el_is_descr el then
                if tk_no_open el then Err ERuntime "Malformed token found '['" else
                if tk_no_close el then Err ERuntime "Malformed token ']' found" else
                let A := tk_A el in
                let bt := tk_bond_text el in
                let B := tk_B el in
                do st <- pushpop_src A (p_stack s);
                if tk_dot_free A then
                  match st with
                  | [] => Err EIndex "atom_to_bond[-1]"
                  | top :: _ =>
                      let atom := if tk_top_negative top then 0 else top in
                      if tk_not_first pos && (tk_not_last pos n && (tk_no_branch_close B && tk_no_dot_after B))
                      then Err ERuntime "bond descriptors bond more than one atom" else
                      let pre := if tk_pre_has_open A then tk_pre_after_open A else A in
                      let pre := if tk_is_first pos then pre ++ cut_src (lit "[") (cut_src (lit ")") B) else pre in
                      do bd <- parse_descr bt (Z.of_nat (List.length (p_bds s)) + off) pre (Some atom);
                      let done := TBond bd :: (if tk_keep_A A then TStr A :: p_done s else p_done s) in
                      bind_src f off (if tk_keep_B B then TStr B :: rest else rest)
                               {| p_done := done; p_natoms := p_natoms s; p_stack := st; p_bds := bd :: p_bds s |}
                  end
                else Err ERuntime "bond descriptors with a . before them"
              else
                do st <- pushpop_src el (p_stack s);
                bind_src f off rest {| p_done := TStr el :: p_done s; p_natoms := p_natoms s; p_stack := st; p_bds := p_bds s |}
          end
        else OK s
    end.

  Lemma in_range_is (a b : nat) : tk_in_range a (a + b) = negb (Nat.eqb b 0).
  Proof. unfold tk_in_range. destruct b; [rewrite Nat.add_0_r; apply Z.ltb_irrefl|]. apply Z.ltb_lt. lia. Qed.
  Lemma not_first_is pos : tk_not_first pos = negb (Nat.eqb pos 0).
  Proof. unfold tk_not_first. f_equal. destruct pos; [reflexivity|]. apply Z.eqb_neq. lia. Qed.
  Lemma is_first_is pos : tk_is_first pos = Nat.eqb pos 0.
  Proof. unfold tk_is_first. destruct pos; [reflexivity|]. apply Z.eqb_neq. lia. Qed.
  Lemma not_last_is pos n : (1 <= n)%nat -> tk_not_last pos n = negb (Nat.eqb pos (n - 1)).
  Proof.
    intros H. unfold tk_not_last. f_equal. destruct (Nat.eqb pos (n - 1)) eqn:E.
    - apply Nat.eqb_eq in E. apply Z.eqb_eq. lia.
    - apply Nat.eqb_neq in E. apply Z.eqb_neq. lia.
  Qed.

  Theorem bind_is_source : forall fuel off todo s, bind_src fuel off todo s = bind fuel off todo s.
  Proof.
    induction fuel as [|f IH]; intros off todo s; [reflexivity|]. cbn [bind_src bind]. cbv zeta. rewrite in_range_is.
    destruct todo as [|[a|el|d] rest]; cbn [List.length Nat.eqb negb].
    - reflexivity.
    - destruct (p_stack s); [reflexivity|apply IH].
    - unfold tk_el_is_descr. fold (has_descr_char el). destruct (has_descr_char el).
      + unfold tk_no_open, tk_no_close. destruct (find (lit "[") el <? 0); [reflexivity|]. destruct (find (lit "]") el <=? 0); [reflexivity|].
        unfold tk_A, tk_bond_text, tk_B. rewrite pushpop_is_source.
        match goal with |- Bond.bind ?x _ = Bond.bind ?x _ => destruct x as [st|e m]; cbn [Bond.bind]; [|reflexivity] end.
        unfold tk_dot_free. destruct (contains (lit ".") _); cbn [negb]; [reflexivity|].
        destruct st as [|top st']; [reflexivity|].
        rewrite not_first_is, is_first_is, not_last_is by lia.
        unfold tk_no_branch_close, tk_no_dot_after, tk_top_negative, tk_pre_has_open, tk_pre_after_open, tk_keep_A, tk_keep_B, cut_src, tk_stop_in, tk_cut_at.
        rewrite !len_pos_is. fold (cut_at (lit ")") (slice el (Some (find (lit "]") el + 1)) None)).
        fold (cut_at (lit "[") (cut_at (lit ")") (slice el (Some (find (lit "]") el + 1)) None))).
        rewrite !andb_assoc.
        match goal with |- (if ?c then _ else _) = (if ?c then _ else _) => destruct c; [reflexivity|] end.
        match goal with |- Bond.bind ?x _ = Bond.bind ?x _ => destruct x as [bd|e m]; cbn [Bond.bind]; [|reflexivity] end.
        rewrite IH. destruct (slice el None (Some (find (lit "[") el))); destruct (slice el (Some (find (lit "]") el + 1)) None); reflexivity.
      + rewrite pushpop_is_source.
        match goal with |- Bond.bind ?x _ = Bond.bind ?x _ => destruct x as [st|e m]; cbn [Bond.bind]; [apply IH|reflexivity] end.
    - apply IH.
  Qed.

  (* ---- SmilesToken.__init__ ---- *)
  Definition parse_token_src (text : str) (off : Z) : result token :=
    if tk_offset_bad off then Err ERuntime "bond_id_offset is not positive" else
    let raw := tk_raw text in
    if tk_unbalanced text then Err ERuntime "unbalanced branches" else
    do els <- scan_src (S (S (2 * List.length raw))) raw [] [];
    do s <- bind_src (S (mu els)) off els {| p_done := []; p_natoms := 0; p_stack := [-1]; p_bds := [] |};
    OK {| k_elements := rev (p_done s); k_atoms := atoms_of (rev (p_done s)); k_bds := rev (p_bds s) |}.

  Theorem parse_token_is_source text off : parse_token_src text off = parse_token valid_atom text off.
  Proof.
    unfold parse_token_src, parse_token, tk_offset_bad, tk_raw, tk_unbalanced.
    destruct (off <? 0); [reflexivity|]. cbv zeta. destruct (negb _); [reflexivity|].
    destruct (scan_is_source (S (S (2 * List.length (strip text))))) as [E _]. rewrite E.
    match goal with |- Bond.bind ?x _ = Bond.bind ?x _ => destruct x as [els|e m]; cbn [Bond.bind]; [|reflexivity] end.
    rewrite bind_is_source. reflexivity.
  Qed.
End TokenSrc.
