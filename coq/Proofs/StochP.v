(* The stochastic-object parser (Model/Stoch.v), for EVERY text and every atom oracle:
   - an accepted object's descriptor table is exactly the descriptors of its repeat tokens followed by those of its end tokens;
   - every token was parsed with the number of descriptors before it as its offset;
   - _validate: in an accepted object every transition list -- on a token descriptor or on a terminal -- has exactly one entry per
     descriptor of the object (a list of any other length is rejected);
   - what does not start with '{' or has no '}' is rejected; the parser has no loop of its own besides the two token lists and the
     backwards scan before the right terminal, so it is total given the totality of the token parser (Proofs/TotalP.v). *)
From Coq Require Import List ZArith QArith Ascii String Bool Lia.
From GBS Require Import Model.PyStr Model.Num Model.Bond Model.Token Model.DistFam Src.SrcDist Model.Stoch Proofs.TotalP.
Import ListNotations.
Open Scope nat_scope.

Section StochP.
  Variable valid_atom : str -> bool.

  Lemma bind_ok {A B} (r : result A) (f : A -> result B) b : Bond.bind r f = OK b -> exists a, r = OK a /\ f a = OK b.
  Proof. destruct r as [a|e m]; cbn [Bond.bind]; [eauto|discriminate]. Qed.

  (* the tokens of a list were parsed one after the other, each at the offset "descriptors so far" *)
  Fixpoint units_at (off : nat) (toks : list token) : Prop :=
    match toks with
    | [] => True
    | t :: r => (exists p, parse_token valid_atom p (Z.of_nat off) = OK t) /\ units_at (off + List.length (k_bds t)) r
    end.

  Lemma parse_units_spec : forall pieces bds acc toks bds',
    parse_units valid_atom pieces bds acc = OK (toks, bds') ->
    exists new, toks = (rev acc ++ new)%list /\ bds' = (bds ++ flat_map k_bds new)%list /\ units_at (List.length bds) new.
  Proof.
    induction pieces as [|p rest IH]; intros bds acc toks bds' H; cbn [parse_units] in H.
    - injection H as <- <-. exists []. cbn [flat_map units_at]. rewrite !app_nil_r. auto.
    - destruct (strip p) as [|c cs] eqn:Es; [apply IH; exact H|].
      apply bind_ok in H as (t & Ht & H). apply IH in H as (new & E1 & E2 & F). exists (t :: new). split; [|split].
      + rewrite E1. cbn [rev]. rewrite <- app_assoc. reflexivity.
      + rewrite E2. cbn [flat_map]. rewrite <- app_assoc. reflexivity.
      + cbn [units_at]. split; [exists (c :: cs); exact Ht|]. rewrite app_length in F. exact F.
  Qed.

  Definition lists_fit (s : pstoch) : Prop :=
    forall d l, In d (ps_bds s ++ [ps_left s; ps_right s]) -> d_trans d = Some l -> List.length l = List.length (ps_bds s).

  Theorem parse_stoch_spec text s : parse_stoch valid_atom text = OK s ->
    ps_bds s = (flat_map k_bds (ps_rep s) ++ flat_map k_bds (ps_end s))%list /\
    units_at 0 (ps_rep s) /\ units_at (List.length (flat_map k_bds (ps_rep s))) (ps_end s) /\
    lists_fit s /\
    (exists raw pre, parse_descr raw 0%Z pre None = OK (ps_left s)) /\
    (exists raw pre, parse_descr raw (Z.of_nat (List.length (ps_bds s))) pre None = OK (ps_right s)).
  Proof.
    unfold parse_stoch. intros H.
    destruct (index (strip text) 0) as [c0|]; [|discriminate].
    destruct (negb (Ascii.eqb c0 (ch "{"))); [discriminate|].
    destruct (rfind (lit "}") (strip text) <? 0)%Z; [discriminate|].
    set (middle := slice (strip text) (Some 1%Z) (Some (rfind (lit "}") (strip text)))) in *.
    destruct (index middle (find (lit "]") middle + 1)) as [c1|]; [|discriminate].
    destruct (Ascii.eqb c1 (ch "}")); [discriminate|].
    destruct (find_at (lit "]") middle 1 <=? 0)%Z; [discriminate|].
    apply bind_ok in H as (lft & Hl & H).
    destruct (if contains (lit ";") middle then _ else _) as [rep_text end_text].
    apply bind_ok in H as ([reps bds1] & H1 & H). apply bind_ok in H as ([ends bds2] & H2 & H).
    apply bind_ok in H as (rgt & Hr & H). apply bind_ok in H as (dist & Hd & H).
    destruct (existsb _ (bds2 ++ [lft; rgt])) eqn:Ev; [discriminate|]. injection H as <-. cbn [ps_bds ps_rep ps_end ps_left ps_right].
    apply parse_units_spec in H1 as (new1 & E1 & B1 & U1). apply parse_units_spec in H2 as (new2 & E2 & B2 & U2).
    cbn [rev app] in E1, E2, B1. subst reps ends bds1 bds2. cbn [List.length] in U1.
    split; [reflexivity|]. split; [exact U1|]. split; [exact U2|]. split; [|split; eauto].
    intros d l Hin Ht. unfold lists_fit in *. cbn [ps_bds ps_left ps_right] in *.
    destruct (Nat.eq_dec (List.length l) (List.length (flat_map k_bds new1 ++ flat_map k_bds new2))) as [E|N]; [exact E|].
    exfalso. assert (existsb (fun d0 => match d_trans d0 with Some l0 => negb (Nat.eqb (List.length l0) (List.length (flat_map k_bds new1 ++ flat_map k_bds new2))) | None => false end)
                             ((flat_map k_bds new1 ++ flat_map k_bds new2) ++ [lft; rgt]) = true).
    { apply existsb_exists. exists d. split; [exact Hin|]. rewrite Ht. apply negb_true_iff, Nat.eqb_neq. exact N. }
    congruence.
  Qed.

  (* rejections *)
  Theorem parse_stoch_needs_braces text : (forall c rest, strip text = c :: rest -> c <> ch "{") -> forall s, parse_stoch valid_atom text <> OK s.
  Proof.
    intros H s. unfold parse_stoch. destruct (strip text) as [|c rest] eqn:E; [cbn; discriminate|].
    cbn [index len List.length]. replace (index (c :: rest) 0) with (Some c) by reflexivity.
    destruct (Ascii.eqb_spec c (ch "{")) as [->|N]; [exfalso; eapply H; reflexivity|]. cbn [negb]. discriminate.
  Qed.

  (* totality: no fuel result, because the only loops are the token parser's (total) *)
  Lemma parse_units_not_fuel : forall pieces bds acc, is_fuel (parse_units valid_atom pieces bds acc) = false.
  Proof.
    induction pieces as [|p rest IH]; intros bds acc; cbn [parse_units]; [reflexivity|].
    destruct (strip p) as [|c cs]; [apply IH|].
    pose proof (parse_token_total valid_atom (c :: cs) (Z.of_nat (List.length bds))) as T.
    destruct (parse_token valid_atom (c :: cs) (Z.of_nat (List.length bds))) as [t|e m]; cbn [Bond.bind]; [apply IH|exact T].
  Qed.

  Lemma is_fuel_bind {A B} (r : result A) (f : A -> result B) : is_fuel r = false -> (forall a, r = OK a -> is_fuel (f a) = false) -> is_fuel (Bond.bind r f) = false.
  Proof. destruct r as [a|e m]; cbn [Bond.bind]; intros H1 H2; [apply H2; reflexivity|exact H1]. Qed.

  Theorem parse_stoch_total text : is_fuel (parse_stoch valid_atom text) = false.
  Proof.
    unfold parse_stoch.
    destruct (index (strip text) 0) as [c0|]; [|reflexivity].
    destruct (negb (Ascii.eqb c0 (ch "{"))); [reflexivity|].
    destruct (rfind (lit "}") (strip text) <? 0)%Z; [reflexivity|].
    set (middle := slice (strip text) (Some 1%Z) (Some (rfind (lit "}") (strip text)))).
    destruct (index middle (find (lit "]") middle + 1)) as [c1|]; [|reflexivity].
    destruct (Ascii.eqb c1 (ch "}")); [reflexivity|].
    destruct (find_at (lit "]") middle 1 <=? 0)%Z; [reflexivity|].
    apply is_fuel_bind; [apply parse_descr_not_fuel|]. intros lft _.
    destruct (if contains (lit ";") middle then _ else _) as [rep_text end_text].
    apply is_fuel_bind; [apply parse_units_not_fuel|]. intros [reps bds1] _.
    apply is_fuel_bind; [apply parse_units_not_fuel|]. intros [ends bds2] _.
    apply is_fuel_bind; [apply parse_descr_not_fuel|]. intros rgt _.
    apply is_fuel_bind.
    - destruct (1 <? _)%Z; [|reflexivity]. destruct (dispatch _) as [f|]; [|reflexivity]. destruct (startswith _ _); reflexivity.
    - intros dist _. destruct (existsb _ _); reflexivity.
  Qed.
End StochP.

(* tie: the length test of the hand model IS the test of the current source (Src/SrcStoch.v is regenerated from Stochastic._validate on every
   run); a change of that test in the source breaks this lemma *)
From GBS Require Src.SrcStoch.
Lemma validate_is_source bds lft rgt :
  SrcStoch.validate_bad bds lft rgt =
  existsb (fun d => match d_trans d with Some l => negb (Nat.eqb (List.length l) (List.length bds)) | None => false end) (bds ++ [lft; rgt])%list.
Proof. reflexivity. Qed.
