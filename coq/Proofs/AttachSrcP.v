(* Tie T for MolGen.attach_other: Src/SrcAttach.v holds its three decisions REGENERATED from mol_gen.py (the statement skeleton, without the
   statements that place the new atoms in space, is checked by the translator; is_compatible is the function regenerated from bond.py).
   attach rebuilt from them is proved equal to Model/Gen.v's, which the C04 / C05 theorems are about. *)
From Coq Require Import List ZArith QArith Ascii String Bool Lia.
From GBS Require Import Model.PyStr Model.Num Model.Bond Model.Select Model.Gen Src.SrcBond Proofs.BondP Src.SrcAttach.
Import ListNotations.

Definition attach_src (g : molgen) (i : nat) (tok : gtoken) (ref : rref) (j : nat) : result molgen :=
  if negb (t_ok tok) then Err ERuntime "token not generable" else       (* other = MolGen(token) *)
  let inst := instances tok (m_natoms g) (List.length (m_res g)) in
  if self_idx_bad i (List.length (m_open g)) then Err ERuntime "invalid bond descriptor id" else
  if other_idx_bad j (List.length inst) then Err ERuntime "invalid bond descriptor id" else
  match nth_error (m_open g) i, nth_error inst j with
  | Some a, Some b =>
      if attach_refused (o_d a) (o_d b) then Err ERuntime "incompatible" else
      OK {| m_res := m_res g ++ [(ref, tok)];
            m_natoms := (m_natoms g + t_natoms tok)%Z;
            m_log := m_log g ++ [{| a_self := a; a_other := b; a_ref := ref |}];
            m_open := remove_nth i (m_open g) ++ remove_nth j inst;
            m_mass := Qred (m_mass g + t_mass tok) |}
  | _, _ => Err EOther "unreachable"
  end.

Lemma idx_bad_is (k n : nat) : Z.leb (Z.of_nat n) (Z.of_nat k) = Nat.leb n k.
Proof. destruct (Nat.leb n k) eqn:E; [apply Nat.leb_le in E; apply Z.leb_le; lia|apply Nat.leb_gt in E; apply Z.leb_gt; lia]. Qed.

Theorem attach_is_source g i tok ref j : attach_src g i tok ref j = attach g i tok ref j.
Proof.
  unfold attach_src, attach. destruct (negb (t_ok tok)); [reflexivity|]. cbv zeta.
  set (inst := instances tok (m_natoms g) (List.length (m_res g))).
  unfold self_idx_bad, other_idx_bad. rewrite !idx_bad_is.
  destruct (Nat.leb (List.length (m_open g)) i) eqn:E1.
  - apply Nat.leb_le in E1. apply nth_error_None in E1. rewrite E1. reflexivity.
  - apply Nat.leb_gt in E1. destruct (nth_error (m_open g) i) as [a|] eqn:Ea; [|apply nth_error_None in Ea; lia].
    destruct (Nat.leb (List.length inst) j) eqn:E2.
    + apply Nat.leb_le in E2. apply nth_error_None in E2. rewrite E2. reflexivity.
    + apply Nat.leb_gt in E2. destruct (nth_error inst j) as [b|] eqn:Eb; [|apply nth_error_None in Eb; lia].
      unfold attach_refused. rewrite src_compat_model. reflexivity.
Qed.

(* fully generated = no open bond descriptor left *)
Theorem fully_generated_is_source n : fully_generated_src n = Nat.eqb n 0.
Proof. unfold fully_generated_src. destruct n; [reflexivity|]. apply Z.eqb_neq. lia. Qed.
