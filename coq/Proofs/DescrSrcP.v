(* Tie T for the descriptor parser: Src/SrcDescr.v holds every string expression and every decision of BondDescriptor.__init__ REGENERATED
   from bond.py (find / rfind / count / slices / strip / membership tests translated into the string primitives of Model/PyStr.v; the
   statement skeleton is checked by the translator; the bond-order chain is regenerated into Src/SrcBond.v).  The parser rebuilt from them,
   statement by statement, is proved equal to Model/Bond.v's parse_descr -- the function of the C01 round-trip theorem and of the C02 / C15
   descriptor theorems. *)
From Coq Require Import List ZArith QArith Ascii String Bool Lia.
From GBS Require Import Model.PyStr Model.Num Model.Bond Src.SrcBond Proofs.BondP Src.SrcDescr.
Import ListNotations.
Open Scope Z_scope.

Definition parse_descr_src (raw0 : str) (dnum : Z) (pre0 : str) (atom : option Z) : result descr :=
  if d_is_empty raw0 then
    OK {| d_sym := []; d_id := None; d_weight := Fin 1; d_trans := None; d_order := SrcBond.order_empty;
          d_pre := pre0; d_atom := None; d_num := dnum |}
  else
  let raw := if d_no_pre pre0 then d_raw_cut raw0 else raw0 in
  match index raw 0, index raw (-1) with
  | Some c0, Some cl =>
    if d_brackets_bad c0 cl then Err ERuntime "brackets" else
    match index raw 1 with
    | None => Err EIndex "raw[1]"
    | Some c1 =>
      if d_symbol_bad c1 then Err ERuntime "symbol" else
      let id_end := if d_has_bar raw then d_id_end raw else d_id_end_default in
      let ids := d_id_text raw id_end in
      if d_nested ids then Err ERuntime "nested" else
      do id <- (if d_has_id ids then
                  match py_int ids with Some z => OK (Some z) | None => Err EValue "id" end
                else OK None);
      do wt <- (if d_has_bar raw then
                  if d_bars_bad raw then Err ERuntime "bars" else
                  if d_tail_bad raw then Err ERuntime "text after the closing '|'" else
                  let ws := d_weight_strip (d_weight_text raw) in
                  match map_opt py_float (split_ws ws) with
                  | None => Err EValue "weight"
                  | Some l =>
                      if d_no_weights (List.length l) then Err ERuntime "empty weight specification" else
                      if d_one_weight (List.length l) then OK (hd NaN l, None) else OK (num_sum l, Some l)
                  end
                else OK (Fin 1, None));
      if d_stereo pre0 then Err ERuntime "stereo" else
      OK {| d_sym := [c1]; d_id := id; d_weight := fst wt; d_trans := snd wt;
            d_order := SrcBond.order_of_pre pre0; d_pre := pre0; d_atom := atom; d_num := dnum |}
    end
  | _, _ => Err EIndex "raw[0]"
  end.

Theorem parse_descr_is_source raw0 dnum pre0 atom : parse_descr_src raw0 dnum pre0 atom = parse_descr raw0 dnum pre0 atom.
Proof.
  unfold parse_descr_src, parse_descr, d_is_empty, d_no_pre, d_raw_cut.
  destruct (str_eqb raw0 (lit "[]")); [reflexivity|].
  set (raw := if len pre0 =? 0 then slice raw0 (Some (find (lit "[") raw0)) None else raw0). cbv zeta.
  destruct (index raw 0) as [c0|]; [|reflexivity]. destruct (index raw (-1)) as [cl|]; [|reflexivity].
  unfold d_brackets_bad. rewrite <- negb_andb.
  destruct (negb (Ascii.eqb c0 (ch "[") && Ascii.eqb cl (ch "]"))); [reflexivity|].
  destruct (index raw 1) as [c1|]; [|reflexivity].
  unfold d_symbol_bad. destruct (negb (in_set (lit "$<>") c1)); [reflexivity|].
  unfold d_has_bar, d_id_end, d_id_end_default, d_id_text, d_nested, d_has_id.
  destruct (contains (lit "[") _ || contains (lit "]") _)%bool; [reflexivity|].
  rewrite <- Z.gtb_ltb.
  match goal with |- Bond.bind ?x _ = Bond.bind ?x _ => destruct x as [id|e m]; cbn [Bond.bind]; [|reflexivity] end.
  assert (W : (if contains (lit "|") raw
               then if d_bars_bad raw then Err ERuntime "bars"
                    else if d_tail_bad raw then Err ERuntime "text after the closing '|'"
                    else match map_opt py_float (split_ws (d_weight_strip (d_weight_text raw))) with
                         | None => Err EValue "weight"
                         | Some l => if d_no_weights (List.length l) then Err ERuntime "empty weight specification"
                                     else if d_one_weight (List.length l) then OK (hd NaN l, None) else OK (num_sum l, Some l)
                         end
               else OK (Fin 1, None))
              = (if contains (lit "|") raw
                 then if negb (count_char (ch "|") raw =? 2) then Err ERuntime "bars"
                      else if negb (str_eqb (slice raw (Some (rfind (lit "|") raw + 1)) None) (lit "]")) then Err ERuntime "text after the closing '|'"
                      else match map_opt py_float (split_ws (strip_chars (lit "|") (slice raw (Some (find (lit "|") raw)) (Some (rfind (lit "|") raw))))) with
                           | None => Err EValue "weight"
                           | Some [] => Err ERuntime "empty weight specification"
                           | Some [w] => OK (w, None)
                           | Some l => OK (num_sum l, Some l)
                           end
                 else OK (Fin 1, None))).
  { destruct (contains (lit "|") raw); [|reflexivity]. unfold d_bars_bad, d_tail_bad, d_weight_strip, d_weight_text.
    destruct (negb (count_char (ch "|") raw =? 2)); [reflexivity|].
    destruct (negb (str_eqb _ (lit "]"))); [reflexivity|].
    destruct (map_opt py_float _) as [l|]; [|reflexivity].
    destruct l as [|w [|w2 l']]; [reflexivity|reflexivity|].
    unfold d_no_weights, d_one_weight.
    replace (Z.of_nat (List.length (w :: w2 :: l')) =? 0) with false by (symmetry; apply Z.eqb_neq; cbn [List.length]; lia).
    replace (Z.of_nat (List.length (w :: w2 :: l')) =? 1) with false by (symmetry; apply Z.eqb_neq; cbn [List.length]; lia).
    reflexivity. }
  rewrite W.
  match goal with |- Bond.bind ?x _ = Bond.bind ?x _ => destruct x as [wt|e m]; cbn [Bond.bind]; [|reflexivity] end.
  unfold d_stereo. destruct (contains (lit "@") pre0 || contains (lit "/") pre0 || contains (lit "\") pre0)%bool; [reflexivity|].
  rewrite src_order_model. reflexivity.
Qed.
