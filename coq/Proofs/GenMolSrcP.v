(* Molecule.generate as a whole: the loop over the elements (statement skeleton checked: my_mol = element.generate(my_mol, rng) for every
   element in order) with SmilesToken.generate and Stochastic.generate rebuilt from the source (Proofs/GenSrcP.v), is Model/Gen.v's
   gen_molecule -- for every state of the run monad, hence for every pick stream and every list of drawn targets. *)
From Coq Require Import List ZArith QArith Ascii String Bool.
From GBS Require Import Model.PyStr Model.Num Model.Bond Model.Select Model.Gen Src.SrcGen Src.SrcCore Proofs.CoreSrcP Proofs.GenSrcP.
Import ListNotations.

Fixpoint gen_elems_src (els : list gelem) (ei : nat) (prefix : option molgen) (infos : list sinfo) : run (option molgen * list sinfo) :=
  match els with
  | [] => ret (prefix, infos)
  | ETok t :: r => rdo g <- gen_token_src t ei prefix ;; gen_elems_src r (S ei) (Some g) infos
  | EStoch s :: r => rdo gi <- gen_stoch_src s ei prefix ;; gen_elems_src r (S ei) (Some (fst gi)) (infos ++ [snd gi])
  end.

Theorem gen_elems_is_source : forall els ei prefix infos st, gen_elems_src els ei prefix infos st = gen_elems els ei prefix infos st.
Proof.
  induction els as [|e r IH]; intros ei prefix infos st; [reflexivity|]. destruct e as [t|s]; cbn [gen_elems_src gen_elems].
  - apply rbind_ext2; [intros st'; apply gen_token_is_source|]. intros g st'. apply IH.
  - apply rbind_ext2; [intros st'; apply gen_stoch_is_source|]. intros gi st'. apply IH.
Qed.

Definition run_gen_src (els : list gelem) (pk : list nat) (tg : list Q) :=
  gen_elems_src els 0 None [] {| picks := pk; targets := tg; trace := [] |}.
Theorem run_gen_is_source els pk tg : run_gen_src els pk tg = run_gen els pk tg.
Proof. apply gen_elems_is_source. Qed.
