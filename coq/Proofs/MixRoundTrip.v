(* Mixture specifier: what Mixture.generate_string prints is read back by Mixture.__init__ as the same masses (for every accepted text, with the
   float printer as a parameter), and the mass read is the number written between the bars in whatever float syntax.  The printer written over
   the expressions REGENERATED from mixture.py (Src/SrcPrint.v) is the one used here. *)
From Coq Require Import List ZArith QArith Ascii String Bool Lia.
From GBS Require Import Model.PyStr Model.Num Model.Bond Model.Token Model.Stoch Model.Mol Proofs.StrP Src.SrcPrint.
Import ListNotations.
Open Scope Z_scope.
Open Scope list_scope.

Lemma lstrip_by_all f pre t : forallb f pre = true -> lstrip_by f (pre ++ t) = lstrip_by f t.
Proof. induction pre as [|c r IH]; [reflexivity|]. cbn [forallb app lstrip_by]. intros H. apply andb_true_iff in H as [Hc Hr]. rewrite Hc. exact (IH Hr). Qed.
Lemma nonef_rev f s : nonef f s = true -> nonef f (rev s) = true.
Proof. unfold nonef. rewrite !forallb_forall. intros H x Hx. apply H. apply in_rev. exact Hx. Qed.
Lemma lstrip_by_nonef f s t : nonef f s = true -> s <> [] -> lstrip_by f (s ++ t) = s ++ t.
Proof. destruct s as [|c r]; [congruence|]. intros H _. cbn [nonef forallb] in H. apply andb_true_iff in H as [Hc _]. cbn [app lstrip_by]. apply negb_true_iff in Hc. rewrite Hc. reflexivity. Qed.
Lemma strip_by_wrapped f pre s post : forallb f pre = true -> forallb f post = true -> nonef f s = true -> s <> [] ->
  strip_by f (pre ++ s ++ post) = s.
Proof.
  intros Hpre Hpost Hs Hne. unfold strip_by, rstrip_by. rewrite (lstrip_by_all f pre _ Hpre), (lstrip_by_nonef f s post Hs Hne).
  rewrite rev_app_distr. rewrite lstrip_by_all; [|rewrite forallb_forall in *; intros x Hx; apply Hpost, in_rev, Hx].
  rewrite <- (app_nil_r (rev s)). rewrite lstrip_by_nonef; [rewrite app_nil_r; apply rev_involutive|apply nonef_rev, Hs|].
  intros E. apply Hne. rewrite <- (rev_involutive s), E. reflexivity.
Qed.

Section MixRoundTrip.
  Variable fprint : num -> str.

  (* Mixture.generate_string(True) of an object read from raw *)
  Definition print_mix (raw : str) (x : pmix) : str :=
    match mx_abs x with
    | Some a => lit ".|" ++ fprint a ++ lit "|"
    | None => match mx_rel x with Some r => lit ".|" ++ fprint r ++ lit "%|" | None => raw end
    end.

  (* the same over the regenerated expressions: generate_string tests absolute_mass is None, then relative_mass is None *)
  Definition print_mix_src (raw : str) (x : pmix) : str :=
    match mx_abs x with
    | None => match mx_rel x with None => mx_print_none raw | Some r => mx_print_rel fprint r end
    | Some a => mx_print_abs fprint a
    end.
  Lemma print_mix_is_source raw x : print_mix_src raw x = print_mix raw x.
  Proof. unfold print_mix_src, print_mix, mx_print_none, mx_print_rel, mx_print_abs. destruct (mx_abs x), (mx_rel x); reflexivity. Qed.

  (* what Python's repr guarantees for a float: it reads back, is not empty and has neither bar nor percent sign *)
  Definition mass_text (w : num) : Prop :=
    py_float (fprint w) = Some w /\ fprint w <> [] /\ nochar (ch "|") (fprint w) = true /\ nochar (ch "%") (fprint w) = true.

  Lemma nonef_bar s : nochar (ch "|") s = true -> nonef (in_set (lit "|")) s = true.
  Proof. unfold nochar, nonef. rewrite !forallb_forall. intros H x Hx. specialize (H x Hx). unfold in_set. cbn [lit list_ascii_of_string existsb]. rewrite orb_false_r. exact H. Qed.
  Lemma nonef_bar_pct s : nochar (ch "|") s = true -> nochar (ch "%") s = true -> nonef (in_set (lit "|%")) s = true.
  Proof.
    unfold nochar, nonef. rewrite !forallb_forall. intros H1 H2 x Hx. specialize (H1 x Hx). specialize (H2 x Hx). unfold in_set.
    cbn [lit list_ascii_of_string existsb]. rewrite orb_false_r, negb_orb. rewrite andb_true_iff. split; assumption.
  Qed.

  Theorem mixture_round_trip raw x :
    parse_mixture raw = OK x ->
    (forall w, mx_abs x = Some w \/ mx_rel x = Some w -> mass_text w) ->
    parse_mixture (print_mix raw x) = OK x.
  Proof.
    intros H Hw. assert (Hshape : (mx_abs x = None /\ mx_rel x = None) \/
      (exists r, x = {| mx_abs := None; mx_rel := Some r |} /\ (num_lt0 r || num_gt r 100) = false) \/
      (exists a, x = {| mx_abs := Some a; mx_rel := None |} /\ num_lt0 a = false)).
    { revert H. unfold parse_mixture. destruct (index raw 0) as [c|]; [|discriminate]. destruct (negb _); [discriminate|].
      destruct (contains _ _).
      - destruct (py_float _) as [r|]; [|discriminate]. destruct (num_lt0 r || num_gt r 100) eqn:E; [discriminate|].
        intros H. injection H as <-. right. left. exists r. split; [reflexivity|exact E].
      - destruct (py_float _) as [a|].
        + destruct (num_lt0 a) eqn:E; [discriminate|]. intros H. injection H as <-. right. right. exists a. split; [reflexivity|exact E].
        + intros H. injection H as <-. left. split; reflexivity. }
    destruct Hshape as [[Ha Hr]|[[r [-> Hb]]|[a [-> Hb]]]].
    - unfold print_mix. rewrite Ha, Hr. exact H.
    - destruct (Hw r (or_intror eq_refl)) as (R1 & R2 & R3 & R4). unfold print_mix. cbn [mx_abs mx_rel].
      unfold parse_mixture. change (lit ".|" ++ fprint r ++ lit "%|") with (ch "." :: ([ch "|"] ++ fprint r ++ [ch "%"; ch "|"])).
      rewrite index_0. change (negb (Ascii.eqb (ch ".") (ch "."))) with false. cbv iota.
      assert (Hc : contains (lit "%") (ch "." :: [ch "|"] ++ fprint r ++ [ch "%"; ch "|"]) = true).
      { change (ch "." :: [ch "|"] ++ fprint r ++ [ch "%"; ch "|"]) with (([ch "."; ch "|"] ++ fprint r) ++ ch "%" :: [ch "|"]) at 1.
        replace (ch "." :: [ch "|"] ++ fprint r ++ [ch "%"; ch "|"]) with (([ch "."; ch "|"] ++ fprint r) ++ ch "%" :: [ch "|"]) by (rewrite <- app_assoc; reflexivity).
        apply (contains_hit (ch "%")). rewrite nochar_app, R4. reflexivity. }
      rewrite Hc.
      change (ch "." :: [ch "|"] ++ fprint r ++ [ch "%"; ch "|"]) with ([ch "."] ++ ([ch "|"] ++ fprint r ++ [ch "%"; ch "|"])).
      change (Some 1) with (Some (len [ch "."])). rewrite slice_tail. unfold strip_chars.
      rewrite (strip_by_wrapped (in_set (lit "|%")) [ch "|"] (fprint r) [ch "%"; ch "|"]); [|reflexivity|reflexivity|apply nonef_bar_pct; assumption|exact R2].
      rewrite R1, Hb. reflexivity.
    - destruct (Hw a (or_introl eq_refl)) as (R1 & R2 & R3 & R4). unfold print_mix. cbn [mx_abs mx_rel].
      unfold parse_mixture. change (lit ".|" ++ fprint a ++ lit "|") with (ch "." :: ([ch "|"] ++ fprint a ++ [ch "|"])).
      rewrite index_0. change (negb (Ascii.eqb (ch ".") (ch "."))) with false. cbv iota.
      assert (Hc : contains (lit "%") (ch "." :: [ch "|"] ++ fprint a ++ [ch "|"]) = false).
      { apply (contains_miss (ch "%")). change (ch "." :: [ch "|"] ++ fprint a ++ [ch "|"]) with ([ch "."; ch "|"] ++ fprint a ++ [ch "|"]).
        rewrite !nochar_app, R4. reflexivity. }
      rewrite Hc.
      change (ch "." :: [ch "|"] ++ fprint a ++ [ch "|"]) with ([ch "."] ++ ([ch "|"] ++ fprint a ++ [ch "|"])).
      change (Some 1) with (Some (len [ch "."])). rewrite slice_tail. unfold strip_chars.
      rewrite (strip_by_wrapped (in_set (lit "|")) [ch "|"] (fprint a) [ch "|"]); [|reflexivity|reflexivity|apply nonef_bar; assumption|exact R2].
      rewrite R1, Hb. reflexivity.
  Qed.
End MixRoundTrip.

(* The mass of a mixture specifier is the number written between the bars -- whatever float syntax it is written in (".5", "5.", "5e-1") *)
Theorem mixture_reads_what_is_written s :
  s <> [] -> nochar (ch "|") s = true -> nochar (ch "%") s = true ->
  parse_mixture (lit ".|" ++ s ++ lit "|") =
    match py_float s with
    | None => OK {| mx_abs := None; mx_rel := None |}
    | Some a => if num_lt0 a then Err ERuntime "invalid absolute mass" else OK {| mx_abs := Some a; mx_rel := None |}
    end.
Proof.
  intros R2 R3 R4. unfold parse_mixture. change (lit ".|" ++ s ++ lit "|") with (ch "." :: ([ch "|"] ++ s ++ [ch "|"])).
  rewrite index_0. change (negb (Ascii.eqb (ch ".") (ch "."))) with false. cbv iota.
  assert (Hc : contains (lit "%") (ch "." :: [ch "|"] ++ s ++ [ch "|"]) = false).
  { apply (contains_miss (ch "%")). change (ch "." :: [ch "|"] ++ s ++ [ch "|"]) with ([ch "."; ch "|"] ++ s ++ [ch "|"]).
    rewrite !nochar_app, R4. reflexivity. }
  rewrite Hc. change (ch "." :: [ch "|"] ++ s ++ [ch "|"]) with ([ch "."] ++ ([ch "|"] ++ s ++ [ch "|"])).
  change (Some 1) with (Some (len [ch "."])). rewrite slice_tail. unfold strip_chars.
  rewrite (strip_by_wrapped (in_set (lit "|")) [ch "|"] s [ch "|"]); [reflexivity|reflexivity|reflexivity|apply nonef_bar; assumption|exact R2].
Qed.

Theorem mixture_reads_the_percentage_written s :
  s <> [] -> nochar (ch "|") s = true -> nochar (ch "%") s = true ->
  parse_mixture (lit ".|" ++ s ++ lit "%|") =
    match py_float s with
    | None => Err EValue "could not convert string to float"
    | Some r => if num_lt0 r || num_gt r 100 then Err ERuntime "invalid percent" else OK {| mx_abs := None; mx_rel := Some r |}
    end.
Proof.
  intros R2 R3 R4. unfold parse_mixture. change (lit ".|" ++ s ++ lit "%|") with (ch "." :: ([ch "|"] ++ s ++ [ch "%"; ch "|"])).
  rewrite index_0. change (negb (Ascii.eqb (ch ".") (ch "."))) with false. cbv iota.
  assert (Hc : contains (lit "%") (ch "." :: [ch "|"] ++ s ++ [ch "%"; ch "|"]) = true).
  { replace (ch "." :: [ch "|"] ++ s ++ [ch "%"; ch "|"]) with (([ch "."; ch "|"] ++ s) ++ ch "%" :: [ch "|"]) by (rewrite <- app_assoc; reflexivity).
    apply (contains_hit (ch "%")). rewrite nochar_app, R4. reflexivity. }
  rewrite Hc. change (ch "." :: [ch "|"] ++ s ++ [ch "%"; ch "|"]) with ([ch "."] ++ ([ch "|"] ++ s ++ [ch "%"; ch "|"])).
  change (Some 1) with (Some (len [ch "."])). rewrite slice_tail. unfold strip_chars.
  rewrite (strip_by_wrapped (in_set (lit "|%")) [ch "|"] s [ch "%"; ch "|"]); [reflexivity|reflexivity|reflexivity|apply nonef_bar_pct; assumption|exact R2].
Qed.

(* the pinned tree's rule (strip(".|") of the whole text) read ".|.5|" as 5: regression witness for the repair *)
Definition parse_mixture_old_mass (raw : str) : option num := py_float (strip_chars (lit ".|") raw).
Example old_rule_misread : parse_mixture_old_mass (lit ".|.5|") = Some (Fin 5) /\ py_float (lit ".5") = Some (Fin (1 # 2)).
Proof. vm_compute. split; reflexivity. Qed.
Example new_rule_reads : parse_mixture (lit ".|.5|") = OK {| mx_abs := Some (Fin (1 # 2)); mx_rel := None |}.
Proof. vm_compute. reflexivity. Qed.
