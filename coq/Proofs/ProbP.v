(* C19 over the closed forms of Model/Prob.v. *)
From Coq Require Import List ZArith QArith Qfield Lqa Lia Bool.
From GBS Require Import Model.Prob.
Import ListNotations.
Open Scope Q_scope.

Lemma nQ_S n : nQ (S n) == nQ n + 1.
Proof. unfold nQ. rewrite Nat2Z.inj_succ, <- Z.add_1_r, inject_Z_plus. reflexivity. Qed.

Section OneLaw.
  Variable F : Q -> Q.
  Hypothesis F_proper : forall x y, x == y -> F x == F y.

  (* the reported block factor equals the generator's: no mass put into the element beforehand, and either at
     least two units or no probability mass at or below zero *)
  Theorem block_equal_outside u n : (2 <= n)%nat \/ (n = 1%nat /\ F 0 == 0) -> code_block F 0 u n == gen_block F u n.
  Proof.
    intros [H|[-> H0]].
    - destruct n as [|[|n]]; try lia. unfold code_block, code_interval, gen_block.
      rewrite (F_proper (0 + nQ (S (S n)) * u) (nQ (S (S n)) * u)) by ring.
      rewrite (F_proper (0 + nQ (S (S n) - 1) * u) (nQ (S (S n) - 1) * u)) by ring. reflexivity.
    - unfold code_block, code_interval, gen_block. cbn [Nat.sub].
      rewrite (F_proper (0 + nQ 1 * u) u) by (unfold nQ; cbn; ring).
      rewrite (F_proper (0 + nQ 0 * u) 0) by (unfold nQ; cbn; ring). rewrite H0. ring.
  Qed.

  (* over all chain lengths the generator's block probabilities telescope to F(N u) -> 1 *)
  Theorem gen_sums u N : (1 <= N)%nat -> sum_n (gen_block F u) N == F (nQ N * u).
  Proof.
    intros H. induction N as [|N IH]; [lia|]. destruct N as [|N].
    - cbn [sum_n gen_block]. rewrite (F_proper (nQ 1 * u) u) by (unfold nQ; cbn; ring). ring.
    - cbn [sum_n]. rewrite IH by lia. cbn [gen_block Nat.sub]. ring.
  Qed.

  (* the reported ones telescope to F(m0 + N u) - F(m0): short of 1 by F(m0) *)
  Theorem code_sums m0 u N : sum_n (code_block F m0 u) N == F (m0 + nQ N * u) - F m0.
  Proof.
    induction N as [|N IH].
    - cbn [sum_n]. rewrite (F_proper (m0 + nQ 0 * u) m0) by (unfold nQ; cbn; ring). ring.
    - cbn [sum_n]. rewrite IH. unfold code_block, code_interval. replace (S N - 1)%nat with N by lia. ring.
  Qed.
End OneLaw.

(* whole molecule: product over blocks *)
Lemma prodQ_ext l1 l2 : Forall2 Qeq l1 l2 -> prodQ l1 == prodQ l2.
Proof. induction 1 as [|x y l1 l2 H _ IH]; cbn [prodQ]; [reflexivity|]. rewrite H, IH. reflexivity. Qed.

Definition block_ok (b : block) : Prop :=
  (forall x y, x == y -> b_F b x == b_F b y) /\ b_m0 b == 0 /\ ((2 <= b_n b)%nat \/ (b_n b = 1%nat /\ b_F b 0 == 0)).

Theorem chain_equal_outside pstart bs : Forall block_ok bs -> code_prob pstart bs == gen_prob pstart bs.
Proof.
  intros H. unfold code_prob, gen_prob. apply Qmult_comp; [reflexivity|]. apply prodQ_ext.
  induction H as [|b bs (Hp & Hm & Hn) _ IH]; cbn [map]; constructor; [|exact IH].
  assert (E : code_block (b_F b) (b_m0 b) (b_u b) (b_n b) == code_block (b_F b) 0 (b_u b) (b_n b)).
  { unfold code_block, code_interval. rewrite (Hp (b_m0 b + nQ (b_n b) * b_u b) (0 + nQ (b_n b) * b_u b)) by (rewrite Hm; reflexivity).
    rewrite (Hp (b_m0 b + nQ (b_n b - 1) * b_u b) (0 + nQ (b_n b - 1) * b_u b)) by (rewrite Hm; reflexivity). reflexivity. }
  rewrite E. apply block_equal_outside; assumption.
Qed.

(* ---- the full equality is false ---- *)
(* a law with mass 1/4 at or below 0 (a gaussian reaching below zero): a single-unit block is reported with
   F(u) - F(0) = 1/4 although it is generated with probability F(u) = 1/2 *)
Definition F_ex (x : Q) : Q := if Qle_bool 100 x then 1 else if Qle_bool 10 x then 1 # 2 else if Qle_bool 0 x then 1 # 4 else 0.
Theorem equal_refuted_first_interval : ~ code_block F_ex 0 10 1 == gen_block F_ex 10 1.
Proof. vm_compute. discriminate. Qed.

(* a start group of mass 40 inside the interval: two units of mass 30 are reported with F(100) - F(70), generated with F(60) - F(30) *)
Theorem equal_refuted_start_group : ~ code_block F_ex 40 30 2 == gen_block F_ex 30 2.
Proof. vm_compute. discriminate. Qed.
