(* Tie T for the stochastic atom graph: Src/SrcAGraph.v holds the decisions of _add_stochastic_bonds and the pair test of
   _add_transition_bonds REGENERATED from stochastic_atom_graph.py; the statement skeletons of all functions / methods and the remaining
   decisions (type dispatch, the try / except terminal tests, RDKit bookkeeping) are checked against harness/skeletons/.  The stochastic and
   termination edges of an object rebuilt from the regenerated decisions are proved equal to Model/AGraph.v's stoch_edges. *)
From Coq Require Import List ZArith QArith Bool Arith Lia.
From GBS Require Import Model.PyStr Model.Num Model.Bond Model.Sys Model.Select Model.Gen Model.RGraph Model.AGraph Src.SrcBond Proofs.BondP Src.SrcAGraph.
Import ListNotations.

(* the edges of a descriptor without list: one per compatible candidate of positive weight, stochastic into a repeat token, termination
   into an end token *)
Definition weight_edges_src (d : descr) (fl : list (nat * descr)) (offs : list Z) (nr : nat) (first : Z) : list aedge :=
  flat_map (fun to : nat * descr =>
    let '(tj, o) := to in
    if sa_weight_edge d o then
      [{| a_u := first; a_v := (datom o + off_of offs tj)%Z; a_bt := order_code (d_order d);
          a_kind := (if sa_into_repeat tj nr then WStoch else WTerm); a_w := wq o |}]
    else []) fl.

Definition stoch_edges_src (e : aelem) (offs : list Z) : list aedge :=
  let fl := flat e in
  let nr := nrep_of e in
  flat_map (fun td : nat * descr =>
    let '(ti, d) := td in
    if sa_from_end_group ti nr then [] else
    let first := (datom d + off_of offs ti)%Z in
    if sa_has_list d then
      match qtrans d with
      | Some (Some tr) =>
          flat_map (fun ip : nat * Q =>
            match nth_error fl (fst ip) with
            | Some (tj, o) =>
                if sa_list_compatible d o then
                  if sa_list_positive (snd ip) then
                    let second := (datom o + off_of offs tj)%Z in
                    [{| a_u := first; a_v := second; a_bt := order_code (d_order d); a_kind := WStoch; a_w := snd ip |};
                     {| a_u := first; a_v := second; a_bt := order_code (d_order d); a_kind := WTerm; a_w := wq d |}]
                  else []
                else []
            | None => []
            end) (index_from 0 tr)
      | _ => weight_edges_src d fl offs nr first      (* a list with a non-finite entry: outside the exact-rational model *)
      end
    else weight_edges_src d fl offs nr first) fl.

Lemma flat_map_ext'' {A B} (f g : A -> list B) l : (forall a, f a = g a) -> flat_map f l = flat_map g l.
Proof. intros H. induction l as [|a r IH]; [reflexivity|]. cbn [flat_map]. rewrite H, IH. reflexivity. Qed.

Lemma zle_nat a b : Z.leb (Z.of_nat a) (Z.of_nat b) = Nat.leb a b.
Proof. destruct (Nat.leb a b) eqn:E; [apply Nat.leb_le in E; apply Z.leb_le; lia|apply Nat.leb_gt in E; apply Z.leb_gt; lia]. Qed.
Lemma zlt_nat'' a b : Z.ltb (Z.of_nat a) (Z.of_nat b) = Nat.ltb a b.
Proof. destruct (Nat.ltb a b) eqn:E; [apply Nat.ltb_lt in E; apply Z.ltb_lt; lia|apply Nat.ltb_ge in E; apply Z.ltb_ge; lia]. Qed.

Lemma weight_edges_is d fl offs nr first :
  weight_edges_src d fl offs nr first =
  flat_map (fun to : nat * descr =>
    let '(tj, o) := to in
    if compatible d o && negb (Qle_bool (wq o) 0) then
      [{| a_u := first; a_v := (datom o + off_of offs tj)%Z; a_bt := order_code (d_order d);
          a_kind := (if Nat.ltb tj nr then WStoch else WTerm); a_w := wq o |}]
    else []) fl.
Proof.
  unfold weight_edges_src. apply flat_map_ext''. intros [tj o]. unfold sa_weight_edge, sa_into_repeat, Qlt_bool.
  rewrite src_compat_model, zlt_nat''. reflexivity.
Qed.

Theorem stoch_edges_is_source e offs : stoch_edges_src e offs = stoch_edges e offs.
Proof.
  unfold stoch_edges_src, stoch_edges. cbv zeta. apply flat_map_ext''. intros [ti d].
  unfold sa_from_end_group. rewrite zle_nat. rewrite Nat.leb_antisym. destruct (Nat.ltb ti (nrep_of e)); cbn [negb]; [|reflexivity].
  unfold sa_has_list, qtrans. destruct (d_trans d) as [l|]; cbn [negb].
  - destruct (map_opt _ l) as [tr|]; cbn [option_map]; [|apply weight_edges_is].
    apply flat_map_ext''. intros ip. destruct (nth_error (flat e) (fst ip)) as [[tj o]|]; [|reflexivity].
    unfold sa_list_compatible, sa_list_positive, Qlt_bool. rewrite src_compat_model.
    destruct (compatible d o); cbn [andb]; [|reflexivity]. destruct (negb (Qle_bool (snd ip) 0)); reflexivity.
  - apply weight_edges_is.
Qed.

(* the pair test of _add_transition_bonds *)
Theorem pair_compatible_is_source dl dr : sa_pair_compatible dl dr = compatible dl dr.
Proof. apply src_compat_model. Qed.

(* _add_transition_bonds: the transition edges of a pair of consecutive elements rebuilt from the regenerated tests (pair test, the
   two terminal tests, the end-group exclusion); the try / except dispatch on tokens is pinned by the skeleton *)
Definition trans_edges_src (lhs rhs : aelem) (offl offr : list Z) : list aedge :=
  flat_map (fun tl : nat * descr =>
    let '(ti, dl) := tl in
    flat_map (fun tr : nat * descr =>
      let '(tj, dr) := tr in
      if sa_pair_compatible dl dr then
        (* try: terminal_ok = <right_ok>  except AttributeError (a token has no terminal): terminal_ok = True *)
        let ok := match rhs with
                  | AStoch l _ _ _ => match inv_terminal l with Some i => sa_right_ok i dr | None => false end
                  | ATok _ => true end in
        (* if terminal_ok: try: terminal_ok = <left_ok>  except AttributeError: unchanged for a token *)
        let ok := if ok then match lhs with
                             | AStoch _ r _ _ => match inv_terminal r with Some i => sa_left_ok i dl | None => false end
                             | ATok _ => true end
                  else false in
        if ok then
          (* exclude = True; try: exclude = <enters_repeat>  except AttributeError: True for a token *)
          let into := match rhs with AStoch _ _ _ _ => sa_enters_repeat tj (nrep_of rhs) | ATok _ => true end in
          if into then
            [{| a_u := (off_of offl ti + datom dl)%Z; a_v := (off_of offr tj + datom dr)%Z; a_bt := order_code (d_order dl);
                a_kind := WTrans; a_w := wq dr |}]
          else []
        else []
      else []) (flat rhs)) (flat lhs).


Theorem trans_edges_is_source lhs rhs offl offr : trans_edges_src lhs rhs offl offr = trans_edges lhs rhs offl offr.
Proof.
  unfold trans_edges_src, trans_edges. apply flat_map_ext''. intros [ti dl]. apply flat_map_ext''. intros [tj dr].
  unfold sa_pair_compatible, sa_right_ok, sa_left_ok, sa_enters_repeat. rewrite src_compat_model.
  destruct (compatible dl dr); cbn [negb]; [|reflexivity].
  destruct rhs as [tr|lr rr repr endr], lhs as [tl|ll rl repl endl]; cbn [andb].
  - reflexivity.
  - destruct (inv_terminal rl) as [i|]; [rewrite src_compat_model; destruct (compatible i dl); reflexivity|reflexivity].
  - destruct (inv_terminal lr) as [i|]; [rewrite src_compat_model, zlt_nat''; destruct (compatible i dr); cbn [andb]; [destruct (Nat.ltb _ _); reflexivity|reflexivity]|reflexivity].
  - destruct (inv_terminal lr) as [i|]; [|reflexivity]. rewrite src_compat_model. destruct (compatible i dr); cbn [andb]; [|reflexivity].
    destruct (inv_terminal rl) as [i2|]; [|reflexivity]. rewrite src_compat_model, zlt_nat''. destruct (compatible i2 dl); cbn [andb]; [destruct (Nat.ltb _ _); reflexivity|reflexivity].
Qed.

(* StochasticAtomGraph.generate: every element's static, stochastic / termination edges, then the transition edges of each consecutive
   pair, written over the regenerated decisions *)
Fixpoint graph_elems_src (es : list aelem) (offs : list Z) : list aedge :=
  match es, offs with
  | e :: re, o :: ro =>
      let toffs := tok_offsets o (toks_of e) in
      statics toffs (toks_of e)
      ++ (match e with AStoch _ _ _ _ => stoch_edges_src e toffs | ATok _ => [] end)
      ++ (match re, ro with
          | e2 :: _, o2 :: _ => trans_edges_src e e2 toffs (tok_offsets o2 (toks_of e2))
          | _, _ => []
          end)
      ++ graph_elems_src re ro
  | _, _ => []
  end.
Definition atom_graph_src (es : list aelem) : Z * list aedge :=
  (fold_right Z.add 0%Z (map elem_natoms es), graph_elems_src es (elem_offsets 0 es)).

Theorem atom_graph_is_source es : atom_graph_src es = atom_graph es.
Proof.
  unfold atom_graph_src, atom_graph. f_equal. generalize (elem_offsets 0 es) as offs.
  induction es as [|e re IH]; intros offs; [reflexivity|]. destruct offs as [|o ro]; [reflexivity|].
  cbn [graph_elems_src graph_elems]. rewrite IH, stoch_edges_is_source.
  destruct re as [|e2 re2]; [reflexivity|]. destruct ro as [|o2 ro2]; [reflexivity|]. rewrite trans_edges_is_source. reflexivity.
Qed.
