(* System.__init__ as a whole: the splitting loop rebuilt from the expressions regenerated from system.py (Proofs/SysParseSrcP.v), the
   molecule parser rebuilt from molecule.py / mixture.py (Proofs/MolParseSrcP.v) and the bookkeeping rebuilt from
   _estimate_system_molecular_weight (Proofs/SysSrcP.v), put together statement by statement, equal Model/SystemM.v's parse_system. *)
From Coq Require Import List ZArith QArith Ascii String Bool Lia.
From GBS Require Import Model.PyStr Model.Num Model.Bond Model.Token Model.Stoch Model.Mol Model.Sys Model.SysSplit Model.SystemM
  Src.SrcSysParse Proofs.SysParseSrcP Src.SrcMolParse Proofs.MolParseSrcP Src.SrcSys Proofs.SysSrcP Proofs.TokenSrcP.
Import ListNotations.
Open Scope Z_scope.

Section SystemSrc.
  Variable valid_atom : str -> bool.
  Variable fprint : num -> str.

  Fixpoint system_loop_src2 (fuel : nat) (text : str) (acc : list pmolecule) : result (list pmolecule * str) :=
    match fuel with
    | O => Err EFuel "system_loop"
    | S f =>
        if sp_continues text then
          let end_pos := sp_end_pos text in
          if sp_unclosed end_pos then Err ERuntime "opening '.|' but no closing '|'" else
          do m <- parse_molecule_src valid_atom fprint (slice text None (Some end_pos));
          system_loop_src2 f (sp_rest text end_pos) (m :: acc)
        else OK (rev acc, text)
    end.

  Lemma system_loop_src2_is : forall fuel text acc, system_loop_src2 fuel text acc = system_loop valid_atom fprint fuel text acc.
  Proof.
    intros. rewrite <- system_loop_is_source. revert text acc. induction fuel as [|f IH]; intros text acc; [reflexivity|].
    cbn [system_loop_src2 system_loop_src]. destruct (sp_continues text); [|reflexivity]. cbv zeta.
    destruct (sp_unclosed _); [reflexivity|]. rewrite parse_molecule_is_source.
    destruct (parse_molecule _ _ _); cbn [Bond.bind]; [apply IH|reflexivity].
  Qed.

  Definition parse_system_src (raw : str) (smw : option Q) : result psystem :=
    let text := sp_raw raw in
    do r <- system_loop_src2 (S (List.length text)) text [];
    let '(ms, rest) := r in
    do ms' <- (if sp_last_piece rest then do m <- parse_molecule_src valid_atom fprint rest; OK (ms ++ [m])%list else OK ms);
    do cs <- map_result comp_of_mix (map ml_mix ms');
    do e <- estimate_src cs smw;
    OK {| sy_mols := ms'; sy_comps := snd e; sy_generable := fst e && forallb molecule_generable ms' |}.

  Theorem parse_system_is_source raw smw : parse_system_src raw smw = parse_system valid_atom fprint raw smw.
  Proof.
    unfold parse_system_src, parse_system, sp_raw. cbv zeta. rewrite system_loop_src2_is.
    match goal with |- Bond.bind ?x _ = Bond.bind ?x _ => destruct x as [[ms rest]|e m]; cbn [Bond.bind]; [|reflexivity] end.
    rewrite last_piece_is_source.
    assert (E : (if match rest with [] => false | _ :: _ => true end
                 then do m <- parse_molecule_src valid_atom fprint rest; OK (ms ++ [m])%list else OK ms)
                = match rest with [] => OK ms | _ :: _ => do m <- parse_molecule valid_atom fprint rest; OK (ms ++ [m])%list end).
    { destruct rest; [reflexivity|]. rewrite parse_molecule_is_source. reflexivity. }
    rewrite E.
    match goal with |- Bond.bind ?x _ = Bond.bind ?x _ => destruct x as [ms'|e m]; cbn [Bond.bind]; [|reflexivity] end.
    match goal with |- Bond.bind ?x _ = Bond.bind ?x _ => destruct x as [cs|e m]; cbn [Bond.bind]; [|reflexivity] end.
    rewrite estimate_is_source. reflexivity.
  Qed.
End SystemSrc.
