(* The selection law of core.py:102-122 and stochastic.py:207-209 (Model/Select.v): normalisation,
   proportionality, the equal-weights rule, and "an option of probability zero is never taken" for
   every run of the generator model (C08).  No axioms. *)
From Coq Require Import List ZArith QArith Qfield Lqa Lia Bool Arith.
From GBS Require Import Model.PyStr Model.Num Model.Bond Model.Select Model.Gen.
Import ListNotations.
Open Scope Q_scope.

Lemma total_map_div l c : ~ c == 0 -> total (map (fun w => w / c) l) == total l / c.
Proof. intros Hc. unfold total. induction l as [|x xs IH]; cbn [map fold_right]; [field; exact Hc | rewrite IH; field; exact Hc]. Qed.
Lemma total_nonneg l : Forall (fun x => 0 <= x) l -> 0 <= total l.
Proof. unfold total. induction 1; cbn [fold_right]; lra. Qed.
Lemma total_pos_ex l : Forall (fun x => 0 <= x) l -> (exists x, In x l /\ 0 < x) -> 0 < total l.
Proof.
  induction 1 as [|y l Hy Hl IH]; intros [x [Hin Hx]]; [contradiction|].
  change (0 < y + total l). destruct Hin as [->|Hin]; [pose proof (total_nonneg l Hl); lra|].
  assert (0 < total l) by (apply IH; eauto). lra.
Qed.
Lemma all_eqb_spec x l : all_eqb x l = true <-> Forall (fun y => x == y) l.
Proof.
  induction l as [|y l IH]; cbn [all_eqb]; [split; auto|].
  rewrite andb_true_iff, IH, Qeq_bool_iff. split; [intros [H1 H2]; constructor; auto | inversion 1; auto].
Qed.
Lemma total_map_succ l : total (map (fun y => y + 1) l) == total l + inject_Z (Z.of_nat (length l)).
Proof.
  unfold total. induction l as [|x l IH]; [reflexivity|].
  cbn [map fold_right length]. rewrite IH.
  rewrite Nat2Z.inj_succ, <- Z.add_1_r, inject_Z_plus. change (inject_Z 1) with 1. ring.
Qed.
Lemma noteq_has_pos x w : Forall (fun y => 0 <= y) (x :: w) -> all_eqb x (x :: w) = false -> exists y, In y (x :: w) /\ 0 < y.
Proof.
  intros Hnn He.
  destruct (Qlt_le_dec 0 x) as [Hx|Hx]; [exists x; simpl; auto|].
  assert (x == 0) by (inversion Hnn; lra).
  assert (~ Forall (fun y => x == y) (x :: w)) as Hn by (rewrite <- all_eqb_spec; congruence).
  clear He. inversion Hnn as [|? ? _ Hw]; subst.
  assert (exists y, In y w /\ 0 < y) as [y [Hy1 Hy2]].
  { clear Hnn. induction w as [|y w IH].
    - exfalso; apply Hn; constructor; [reflexivity|constructor].
    - inversion Hw; subst. destruct (Qlt_le_dec 0 y) as [Hy|Hy]; [exists y; simpl; auto|].
      destruct IH as [z [Hz1 Hz2]]; auto.
      + intros HF. apply Hn. inversion HF; subst. constructor; auto. constructor; auto. lra.
      + exists z; simpl; auto. }
  exists y; simpl; auto.
Qed.
Lemma bump_total_pos w : w <> [] -> Forall (fun x => 0 <= x) w -> 0 < total (bump w).
Proof.
  intros Hne Hnn. destruct w as [|x w']; [congruence|]. unfold bump.
  destruct (all_eqb x (x :: w')) eqn:He.
  - rewrite total_map_succ. pose proof (total_nonneg _ Hnn).
    assert (0 < inject_Z (Z.of_nat (length (x :: w')))).
    { change 0 with (inject_Z 0). rewrite <- Zlt_Qlt. simpl length. lia. }
    lra.
  - apply total_pos_ex; auto. apply noteq_has_pos; auto.
Qed.

(* the probabilities handed to rng.choice sum to one whenever the normalising constant is non-zero
   (the model, like numpy, raises otherwise) *)
Theorem law_sums_to_one_gen w : ~ total (bump w) == 0 -> total (law w) == 1.
Proof. intros H. unfold law. rewrite total_map_div by exact H. field. exact H. Qed.

(* ... which is always the case for a non-empty list of non-negative weights, all-equal and
   all-zero lists included *)
Theorem law_sums_to_one w : w <> [] -> Forall (fun x => 0 <= x) w -> total (law w) == 1.
Proof. intros H1 H2. apply law_sums_to_one_gen. pose proof (bump_total_pos w H1 H2). lra. Qed.

Theorem law_nonneg w : w <> [] -> Forall (fun x => 0 <= x) w -> Forall (fun p => 0 <= p) (law w).
Proof.
  intros H1 H2. pose proof (bump_total_pos w H1 H2) as Hp. unfold law. apply Forall_forall. intros p Hin.
  apply in_map_iff in Hin as (y & <- & Hy).
  assert (0 <= y).
  { destruct w as [|x w']; [congruence|]. unfold bump in Hy. destruct (all_eqb x (x :: w')).
    - apply in_map_iff in Hy as (z & <- & Hz). rewrite Forall_forall in H2. specialize (H2 z Hz). lra.
    - rewrite Forall_forall in H2. auto. }
  unfold Qdiv. apply Qmult_le_0_compat; [assumption|]. apply Qinv_le_0_compat. lra.
Qed.

Lemma law_length w : length (law w) = length w.
Proof. unfold law, bump. destruct w as [|x w]; [reflexivity|]. destruct (all_eqb x (x :: w)); rewrite ?map_length; reflexivity. Qed.

(* not all weights equal: each option is taken in proportion to its weight *)
Theorem law_proportional w x w' : w = x :: w' -> all_eqb x w = false ->
  forall i wi, nth_error w i = Some wi -> exists p, nth_error (law w) i = Some p /\ p == wi / total w.
Proof.
  intros -> He i wi Hi. unfold law, bump. rewrite He. exists (wi / total (x :: w')). split; [|reflexivity].
  rewrite nth_error_map, Hi. reflexivity.
Qed.

(* all weights equal (all zero included): the pick is uniform *)
Theorem law_uniform w x w' : w = x :: w' -> all_eqb x w = true -> Forall (fun y => 0 <= y) w ->
  forall i wi, nth_error w i = Some wi -> exists p, nth_error (law w) i = Some p /\ p == 1 / inject_Z (Z.of_nat (length w)).
Proof.
  intros -> He Hnn i wi Hi. unfold law, bump. rewrite He.
  exists ((wi + 1) / total (map (fun y => y + 1) (x :: w'))). split.
  - rewrite nth_error_map, nth_error_map, Hi. reflexivity.
  - rewrite total_map_succ.
    assert (Hall : Forall (fun y => x == y) (x :: w')) by (apply all_eqb_spec; exact He).
    assert (Hwi : x == wi) by (rewrite Forall_forall in Hall; apply Hall; eapply nth_error_In; eauto).
    assert (Ht : total (x :: w') == x * inject_Z (Z.of_nat (length (x :: w')))).
    { clear Hi Hnn He. generalize dependent (x :: w'). intros l Hl. unfold total. induction Hl as [|y l Hy Hl IH]; [cbn; ring|].
      cbn [fold_right length]. rewrite IH, Nat2Z.inj_succ, <- Z.add_1_r, inject_Z_plus. change (inject_Z 1) with 1. rewrite <- Hy. ring. }
    rewrite Ht, <- Hwi.
    assert (0 < inject_Z (Z.of_nat (length (x :: w')))).
    { change 0 with (inject_Z 0). rewrite <- Zlt_Qlt. simpl length. lia. }
    assert (0 <= x) by (inversion Hnn; assumption).
    field. split; [lra|]. nra.
Qed.

(* explicit transition list: probabilities are the listed weights over their sum *)
Theorem trans_law_normalised tr w : w == total tr -> ~ w == 0 -> total (trans_law tr w) == 1.
Proof. intros H Hw. unfold trans_law. rewrite total_map_div by exact Hw. rewrite H. field. rewrite <- H. exact Hw. Qed.

Theorem trans_law_entry tr w i t : nth_error tr i = Some t -> nth_error (trans_law tr w) i = Some (t / w).
Proof. intros H. unfold trans_law. rewrite nth_error_map, H. reflexivity. Qed.

(* the candidate filter: exactly the positions of the compatible descriptors, in order (C03/C08) *)
Lemma compat_idx_from_spec l bond : forall k i,
  In i (compat_idx_from k l bond) <->
  exists j o, i = (k + j)%nat /\ nth_error l j = Some o /\ match bond with None => True | Some b => compatible b o = true end.
Proof.
  induction l as [|o l IH]; intros k i; cbn [compat_idx_from].
  - split; [contradiction|]. intros (j & o & _ & H & _). destruct j; discriminate.
  - assert (Hrec : In i (compat_idx_from (S k) l bond) <->
                   exists j o', i = (k + S j)%nat /\ nth_error l j = Some o' /\ match bond with None => True | Some b => compatible b o' = true end).
    { rewrite IH. split; intros (j & o' & E & H); exists j, o'; (split; [lia|exact H]). }
    destruct bond as [b|].
    + destruct (compatible b o) eqn:Ec.
      * split.
        -- intros [<-|H]; [exists O, o; repeat split; [lia|exact Ec]|]. apply Hrec in H as (j & o' & E & H1 & H2). exists (S j), o'. auto.
        -- intros ([|j] & o' & E & H1 & H2); [left; lia|]. right. apply Hrec. exists j, o'. auto.
      * split.
        -- intros H. apply Hrec in H as (j & o' & E & H1 & H2). exists (S j), o'. auto.
        -- intros ([|j] & o' & E & H1 & H2); [cbn in H1; injection H1 as <-; congruence|]. apply Hrec. exists j, o'. auto.
    + split.
      * intros [<-|H]; [exists O, o; repeat split; lia|]. apply Hrec in H as (j & o' & E & H1 & H2). exists (S j), o'. auto.
      * intros ([|j] & o' & E & H1 & H2); [left; lia|]. right. apply Hrec. exists j, o'. auto.
Qed.

Theorem compat_idx_spec l b i : In i (compat_idx l (Some b)) <-> exists o, nth_error l i = Some o /\ compatible b o = true.
Proof.
  unfold compat_idx. rewrite compat_idx_from_spec. split.
  - intros (j & o & -> & H1 & H2). exists o. auto.
  - intros (o & H1 & H2). exists i, o. auto.
Qed.

(* ------------------------------------------------------------------------------------------ *)
(* every random decision of every run: the option taken has positive probability *)
Definition good_event (e : event) : Prop :=
  match e with
  | EvChoice cands p k => length cands = length p /\ exists pk, nth_error p k = Some pk /\ 0 < pk
  | EvDraw _ => True
  end.

Definition tpost {A} (m : run A) : Prop :=
  forall st a st', Forall good_event (trace st) -> m st = Done a st' -> Forall good_event (trace st').

Lemma tpost_ret {A} (a : A) : tpost (ret a).
Proof. intros st b st' H E. injection E as _ <-. exact H. Qed.
Lemma tpost_fail {A} e s : tpost (@fail A e s).
Proof. intros st a st' _ E. discriminate. Qed.
Lemma tpost_bind {A B} (m : run A) (k : A -> run B) : tpost m -> (forall a, tpost (k a)) -> tpost (rbind m k).
Proof.
  intros H1 H2 st b st' H E. unfold rbind in E. destruct (m st) as [a st1| | | | |] eqn:Em; try discriminate.
  eapply H2; [|exact E]. eapply H1; eauto.
Qed.
Lemma tpost_lift {A} (r : result A) : tpost (lift r).
Proof. destruct r; [apply tpost_ret|apply tpost_fail]. Qed.
Lemma tpost_nofuel {A} : tpost (fun _ : rstate => @OutOfFuel A).
Proof. intros st a st' _ E. discriminate. Qed.
Lemma tpost_with_fuel {A} (F : nat -> run A) : (forall f, tpost (F f)) -> tpost (with_fuel F).
Proof. intros H st a st' Hs E. unfold with_fuel in E. eapply H; eauto. Qed.
Lemma tpost_draw : tpost draw.
Proof.
  intros st a st' H E. unfold draw in E. destruct (targets st); [discriminate|]. injection E as _ <-.
  cbn [trace]. constructor; [exact I|exact H].
Qed.
Lemma tpost_pick cands p : length cands = length p -> tpost (pick cands p).
Proof.
  intros L st a st' H E. unfold pick in E. destruct (picks st) as [|k rest]; [discriminate|].
  destruct (nth_error cands k); [|discriminate]. destruct (nth_error p k) as [pk|] eqn:Ep; [|discriminate].
  destruct (Qle_bool pk 0) eqn:El; [discriminate|]. injection E as _ <-. cbn [trace]. constructor; [|exact H].
  split; [exact L|]. exists pk. split; [exact Ep|].
  destruct (Qlt_le_dec 0 pk) as [Hp|Hp]; [exact Hp|]. apply Qle_bool_iff in Hp. congruence.
Qed.

Lemma map_opt_length {A B} (f : A -> option B) l r : map_opt f l = Some r -> length r = length l.
Proof.
  revert r; induction l as [|x l IH]; intros r H; cbn [map_opt] in H; [injection H as <-; reflexivity|].
  destruct (f x); [|discriminate]. destruct (map_opt f l) as [r'|]; [|discriminate]. injection H as <-. cbn [length]. f_equal. auto.
Qed.

Lemma tpost_choose bds bond : tpost (choose bds bond).
Proof.
  unfold choose. destruct (map_opt _ (compat_idx bds bond)) as [w|] eqn:Ew; [|apply tpost_fail].
  destruct (compat_idx bds bond) eqn:Ei; [apply tpost_fail|].
  destruct (Qeq_bool _ 0); [apply tpost_fail|]. destruct (existsb _ _); [apply tpost_fail|].
  apply tpost_pick. rewrite law_length. symmetry. eapply map_opt_length; eauto.
Qed.

Ltac tpw extra :=
  repeat first
    [ extra
    | apply tpost_ret | apply tpost_fail | apply tpost_lift | apply tpost_draw | apply tpost_choose | apply tpost_nofuel
    | apply tpost_bind; [|intros ?]
    | match goal with
      | |- tpost (match ?x with _ => _ end) => destruct x
      | |- tpost (if ?x then _ else _) => destruct x
      end ].
Ltac tp := tpw fail.

Lemma tpost_gen_token tok ei prefix : tpost (gen_token tok ei prefix).
Proof. unfold gen_token. tp. Qed.
Lemma tpost_get_start s ei prefix : tpost (get_start s ei prefix).
Proof. unfold get_start. tp. Qed.
Lemma tpost_add_unit s ei g : tpost (add_unit s ei g).
Proof.
  unfold add_unit. tpw ltac:(apply tpost_pick; unfold trans_law; rewrite map_length, seq_length; reflexivity).
Qed.
Lemma tpost_cap_loop s ei fuel : forall g, tpost (cap_loop fuel s ei g).
Proof. induction fuel as [|f IH]; intros g; cbn [cap_loop]; tpw ltac:(apply IH). Qed.
Lemma tpost_finalize s ei g : tpost (finalize s ei g).
Proof. unfold finalize. tpw ltac:(apply tpost_with_fuel; intros ?; apply tpost_cap_loop). Qed.
Lemma tpost_grow_loop s ei start T fuel : forall g units, tpost (grow_loop fuel s ei start T g units).
Proof.
  induction fuel as [|f IH]; intros g units; cbn [grow_loop];
    tpw ltac:(first [apply tpost_add_unit | apply tpost_finalize | apply IH]).
Qed.
Lemma tpost_gen_stoch s ei prefix : tpost (gen_stoch s ei prefix).
Proof.
  unfold gen_stoch. tpw ltac:(first [apply tpost_get_start | apply tpost_with_fuel; intros ?; apply tpost_grow_loop]).
Qed.
Lemma tpost_gen_elems : forall els ei prefix infos, tpost (gen_elems els ei prefix infos).
Proof.
  induction els as [|e els IH]; intros ei prefix infos; cbn [gen_elems]; [tp|].
  destruct e; tpw ltac:(first [apply tpost_gen_token | apply tpost_gen_stoch | apply IH]).
Qed.

(* C08 "an option with probability zero is never taken", for every input, pick stream and targets *)
Theorem run_gen_events_good els pk tg r st :
  run_gen els pk tg = Done r st -> Forall good_event (trace st).
Proof. intros H. eapply tpost_gen_elems; [|exact H]. constructor. Qed.

(* what a successful choose records: candidates = compatible positions, p = law of their weights, sum 1 *)
Theorem choose_event bds bond st k st' :
  choose bds bond st = Done k st' ->
  exists w pos, map_opt (fun i => match nth_error bds i with Some d => qw d | None => None end) (compat_idx bds bond) = Some w /\
                trace st' = EvChoice (compat_idx bds bond) (law w) pos :: trace st /\
                nth_error (compat_idx bds bond) pos = Some k /\ total (law w) == 1.
Proof.
  unfold choose. destruct (map_opt _ (compat_idx bds bond)) as [w|] eqn:Ew; [|discriminate].
  destruct (compat_idx bds bond) as [|i0 idx] eqn:Ei; [discriminate|].
  destruct (Qeq_bool (total (bump w)) 0) eqn:Ez; [discriminate|]. destruct (existsb _ _); [discriminate|].
  unfold pick. destruct (picks st) as [|pos rest]; [discriminate|].
  destruct (nth_error (i0 :: idx) pos) as [c|] eqn:Ec; [|discriminate]. destruct (nth_error (law w) pos); [|discriminate].
  destruct (Qle_bool _ 0); [discriminate|]. intros E. injection E as <- <-. exists w, pos. cbn [trace].
  repeat split; auto. apply law_sums_to_one_gen. intros H. apply Qeq_bool_iff in H. congruence.
Qed.
