(* C18, whole residues: for every graph, pick stream and draws, every residue instance of the generated graph consists, in order, of its
   first atom followed by the other atoms of the depth-first order of the static bonds from that atom -- each atom of the token exactly once
   (Proofs/DfsP.v: that order has no repetition and, on a well-formed graph, is closed under static adjacency). *)
From Coq Require Import List ZArith QArith Bool Arith Lia.
From GBS Require Import Model.PyStr Model.Num Model.Bond Model.Select Model.Gen Model.AGen Proofs.GenP Proofs.AGenP Proofs.DfsP.
Import ListNotations.
Open Scope nat_scope.

Definition cores (st : astate) : list (nat * nat) := map core (a_nodes st).
Definition members (r : nat) (C : list (nat * nat)) : list nat := map fst (filter (fun c => Nat.eqb (snd c) r) C).
Definition others (G : sgraph) (sn : nat) : list nat := filter (fun n => negb (Nat.eqb n sn)) (dfs_order G sn).

(* every static bond of the graph between two atoms of the residue is there, as a bond of that residue *)
Definition bonds_at (G : sgraph) (C : list (nat * nat)) (E : list gedge) (r : nat) : Prop :=
  forall u v bt, In (u, v, bt) (sg_static G) -> In u (members r C) -> In v (members r C) ->
    exists e, In e E /\ ge_link e = false /\ ge_bt e = bt /\ nth_error C (ge_a e) = Some (u, r) /\ nth_error C (ge_b e) = Some (v, r).
Definition whole_at (G : sgraph) (C : list (nat * nat)) (E : list gedge) (r : nat) : Prop :=
  forall cr, nth_error C r = Some cr -> snd cr = r -> members r C = fst cr :: others G (fst cr) /\ bonds_at G C E r.
Definition pend_ok (C : list (nat * nat)) (pend : option nat) : Prop :=
  match pend with None => True | Some p => S p = List.length C /\ exists sn, nth_error C p = Some (sn, p) end.
Definition WInv (G : sgraph) (C : list (nat * nat)) (E : list gedge) (pend : option nat) : Prop :=
  pend_ok C pend /\ forall r, Some r <> pend -> whole_at G C E r.

Lemma members_app r C D : members r (C ++ D) = members r C ++ members r D.
Proof. unfold members. rewrite filter_app, map_app. reflexivity. Qed.
Lemma members_other r D : (forall c, In c D -> snd c <> r) -> members r D = [].
Proof.
  unfold members. induction D as [|c D IH]; intros H; [reflexivity|]. cbn [filter].
  destruct (Nat.eqb_spec (snd c) r) as [E|_]; [exfalso; eapply H; [left; reflexivity|exact E]|]. apply IH. intros x Hx. apply H. right. exact Hx.
Qed.
Lemma members_same r L : members r (map (fun n => (n, r)) L) = L.
Proof. unfold members. induction L as [|n L IH]; [reflexivity|]. cbn [map filter snd]. rewrite Nat.eqb_refl. cbn [map fst]. f_equal. exact IH. Qed.

Lemma bonds_at_ext G C E D E' r : (forall c, In c D -> snd c <> r) -> bonds_at G C E r -> bonds_at G (C ++ D) (E ++ E') r.
Proof.
  intros HD H u v bt Hs Hu Hv. rewrite members_app, (members_other r D HD), app_nil_r in Hu, Hv.
  destruct (H u v bt Hs Hu Hv) as (e & He & Hl & Hb & Ha & Hbb). exists e. split; [apply in_or_app; left; exact He|]. split; [exact Hl|]. split; [exact Hb|].
  split; (rewrite nth_error_app1; [assumption|apply nth_error_Some; congruence]).
Qed.

Lemma W_new_root G C E sn l : WInv G C E None -> WInv G (C ++ [(sn, List.length C)]) (E ++ [l]) (Some (List.length C)).
Proof.
  intros [_ H]. split.
  - cbn [pend_ok]. rewrite app_length. cbn [List.length]. split; [lia|]. exists sn. rewrite nth_error_app2, Nat.sub_diag by lia. reflexivity.
  - intros r Hr cr Hn Hs. assert (r <> List.length C) by congruence.
    destruct (Nat.lt_ge_cases r (List.length C)) as [L|L].
    + rewrite nth_error_app1 in Hn by exact L. assert (HD : forall c, In c [(sn, List.length C)] -> snd c <> r) by (intros c [<-|[]]; cbn [snd]; lia).
      destruct (H r ltac:(discriminate) cr Hn Hs) as [M B]. split.
      * rewrite members_app, (members_other r _ HD), app_nil_r. exact M.
      * apply bonds_at_ext; assumption.
    + assert (r < List.length (C ++ [(sn, List.length C)])) by (apply nth_error_Some; congruence). rewrite app_length in *. cbn [List.length] in *. lia.
Qed.

Lemma filter_none {A} (f : A -> bool) l : (forall c, In c l -> f c = false) -> filter f l = [].
Proof. induction l as [|c l IH]; intros H; [reflexivity|]. cbn [filter]. rewrite (H c) by (left; reflexivity). apply IH. intros x Hx. apply H. right. exact Hx. Qed.

Lemma filter_last_only (C0 : list (nat * nat)) cp :
  (forall n c, nth_error (C0 ++ [cp]) n = Some c -> snd c <= n) -> snd cp = List.length C0 ->
  filter (fun c => Nat.eqb (snd c) (List.length C0)) (C0 ++ [cp]) = [cp].
Proof.
  intros H Hp. rewrite filter_app. cbn [filter]. rewrite Hp, Nat.eqb_refl. rewrite filter_none; [reflexivity|].
  intros c Hc. apply In_nth_error in Hc as [n Hn].
  assert (n < List.length C0) by (apply nth_error_Some; congruence).
  specialize (H n c). rewrite nth_error_app1 in H by assumption. specialize (H Hn). apply Nat.eqb_neq. lia.
Qed.

Lemma assoc_some k m a : In (k, a) m -> exists a', assoc k m = Some a'.
Proof.
  induction m as [|[x y] m IH]; intros H; [destruct H|]. cbn [assoc]. destruct (Nat.eqb_spec x k); [eauto|].
  destruct H as [H|H]; [injection H as -> _; congruence|]. apply IH. exact H.
Qed.

Lemma W_complete G C E p sn smap :
  WInv G C E (Some p) -> (forall n c, nth_error C n = Some c -> snd c <= n) -> nth_error C p = Some (sn, p) ->
  smap_ok (C ++ map (fun n => (n, p)) (others G sn)) p smap -> (forall u, In u (sn :: others G sn) -> exists a, In (u, a) smap) ->
  WInv G (C ++ map (fun n => (n, p)) (others G sn)) (E ++ fs_edges G smap) None.
Proof.
  intros [[Hl _] H] Hle Hp Hok Hcov. split; [exact I|]. intros r _ cr Hn Hs.
  assert (HC : exists C0, C = C0 ++ [(sn, p)] /\ List.length C0 = p).
  { apply nth_error_split in Hp as (C0 & C1 & -> & L0). rewrite app_length in Hl. cbn [List.length] in Hl. destruct C1; [|cbn [List.length] in Hl; lia]. eauto. }
  destruct HC as (C0 & -> & L0). subst p.
  destruct (Nat.eq_dec r (List.length C0)) as [->|Hne].
  - assert (Hcr : cr = (sn, List.length C0)).
    { rewrite nth_error_app1 in Hn by (rewrite app_length; cbn [List.length]; lia). rewrite Hn in Hp. congruence. }
    subst cr. cbn [fst].
    assert (HM : members (List.length C0) ((C0 ++ [(sn, List.length C0)]) ++ map (fun n => (n, List.length C0)) (others G sn)) = sn :: others G sn).
    { rewrite members_app, members_same. unfold members. rewrite filter_last_only; [reflexivity| |reflexivity]. intros n c Hc. apply Hle. exact Hc. }
    split; [exact HM|]. intros u v bt Hst Hu Hv. rewrite HM in Hu, Hv.
    destruct (Hcov u Hu) as [a0 Ha0]. destruct (Hcov v Hv) as [b0 Hb0].
    destruct (assoc_some _ _ _ Ha0) as [a Ea]. destruct (assoc_some _ _ _ Hb0) as [b Eb].
    exists {| ge_a := a; ge_b := b; ge_bt := bt; ge_link := false |}. cbn [ge_a ge_b ge_bt ge_link]. split.
    + apply in_or_app. right. unfold fs_edges. apply in_flat_map. exists (u, v, bt). split; [exact Hst|]. unfold fs_edge. rewrite Ea, Eb. left. reflexivity.
    + split; [reflexivity|]. split; [reflexivity|]. split; apply Hok, assoc_In; assumption.
  - assert (HD : forall c, In c (map (fun n => (n, List.length C0)) (others G sn)) -> snd c <> r).
    { intros c Hc. apply in_map_iff in Hc as (n & <- & _). cbn [snd]. congruence. }
    destruct (Nat.lt_ge_cases r (List.length (C0 ++ [(sn, List.length C0)]))) as [L|L].
    + rewrite nth_error_app1 in Hn by exact L. destruct (H r ltac:(congruence) cr Hn Hs) as [M B]. split.
      * rewrite members_app, (members_other r _ HD), app_nil_r. exact M.
      * apply bonds_at_ext; assumption.
    + rewrite nth_error_app2 in Hn by exact L. apply nth_error_In in Hn. apply in_map_iff in Hn as (n & <- & _). cbn [snd] in Hs. congruence.
Qed.

Lemma fs_fold_cores G sn inst : forall order s m,
  cores (fst (fold_left (fs_step G sn inst) order (s, m))) = cores s ++ map (fun n => (n, inst)) (filter (fun n => negb (Nat.eqb n sn)) order).
Proof.
  induction order as [|n order IH]; intros s m; cbn [fold_left filter map]; [rewrite app_nil_r; reflexivity|].
  rewrite fs_step_eq. destruct (Nat.eqb n sn); cbn [negb]; [apply IH|].
  rewrite IH. destruct (add_node_nodes G s n (Some inst) true true true) as (N1 & _ & _). unfold cores. rewrite N1, map_app. cbn [map core g_sn g_inst].
  rewrite <- app_assoc. reflexivity.
Qed.

Lemma fs_fold_keys G sn inst : forall order s m u,
  (exists a, In (u, a) m) \/ In u (filter (fun n => negb (Nat.eqb n sn)) order) ->
  exists a, In (u, a) (snd (fold_left (fs_step G sn inst) order (s, m))).
Proof.
  induction order as [|n order IH]; intros s m u H; cbn [fold_left filter] in *; [destruct H as [H|[]]; exact H|].
  rewrite fs_step_eq. destruct (Nat.eqb n sn); cbn [negb] in *; [apply IH; exact H|].
  apply IH. destruct H as [[a Ha]|[<-|H]]; [left; exists a; right; exact Ha|left; eexists; left; reflexivity|right; exact H].
Qed.

Lemma fill_static_W G s cur : AInv G s -> WInv G (cores s) (a_edges s) (Some cur) -> WInv G (cores (fill_static G s cur)) (a_edges (fill_static G s cur)) None.
Proof.
  intros Hs Hw. pose proof Hw as [[_ [sn Hp]] _]. unfold cores in Hp. rewrite nth_error_map in Hp.
  destruct (nth_error (a_nodes s) cur) as [g|] eqn:Eg; [|discriminate]. cbn [option_map] in Hp. unfold core in Hp. injection Hp as Hsn Hin.
  assert (Hc0 : nth_error (map core (a_nodes s)) cur = Some (core g)) by (rewrite nth_error_map, Eg; reflexivity).
  unfold fill_static. rewrite Eg. cbv beta iota. rewrite Hsn, Hin.
  pose proof (fs_fold_cores G sn cur (dfs_order G sn) s [(sn, cur)]) as Hc.
  pose proof (fs_fold_keys G sn cur (dfs_order G sn) s [(sn, cur)]) as Hk.
  pose proof (fs_fold_inv G sn cur cur (core g) (dfs_order G sn) s [(sn, cur)] Hs Hc0 ltac:(unfold core; cbn [snd]; exact Hin)) as Hf.
  destruct Hf as (_ & Hok & HE).
  { intros u a [H|[]]. injection H as <- <-. rewrite Hc0. unfold core. rewrite Hsn, Hin. reflexivity. }
  destruct (fold_left _ _ _) as [st1 smap]. cbn [fst snd] in *. unfold cores at 1. cbn [a_nodes a_edges]. fold (cores st1). rewrite Hc, HE.
  apply W_complete; [exact Hw| |unfold cores; rewrite Hc0; unfold core; rewrite Hsn, Hin; reflexivity| |].
  - intros n c Hn. destruct Hs as [_ Ci]. apply (ci_inst _ _ _ Ci n c Hn).
  - fold (cores st1) in Hok. rewrite Hc in Hok. exact Hok.
  - intros u [<-|Hu]; [apply Hk; left; exists cur; left; reflexivity|apply Hk; right; exact Hu].
Qed.

Definition AW (G : sgraph) (pend : astate -> option nat) (st : astate) : Prop := AInv G st /\ WInv G (cores st) (a_edges st) (pend st).
Definition none (_ : astate) : option nat := None.

Lemma W_cores G C C' E E' p : C' = C -> E' = E -> WInv G C E p -> WInv G C' E' p.
Proof. intros -> ->. auto. Qed.

Lemma cores_set_clear st i g : nth_error (a_nodes st) i = Some g -> cores (set_node st i (clear_node g)) = cores st.
Proof. intros H. unfold cores, set_node. cbn [a_nodes]. eapply set_core; [exact H|reflexivity]. Qed.

(* one link step: fresh root appended *)
Lemma link_step_W G s v st2 l : WInv G (cores s) (a_edges s) None -> a_nodes st2 = a_nodes (fst (add_node G s v None false false false)) ->
  a_edges st2 = a_edges s ++ [l] -> WInv G (cores st2) (a_edges st2) (Some (List.length (a_nodes s))).
Proof.
  intros Hw HN HE. destruct (add_node_nodes G s v None false false false) as (N1 & _ & _). unfold cores. rewrite HN, HE, N1, map_app. cbn [map core g_sn g_inst].
  rewrite <- (map_length core (a_nodes s)). apply W_new_root. exact Hw.
Qed.

Lemma terminate_AW G : forall fuel s ex, AW G none s -> post (terminate fuel G s ex) (AW G none).
Proof.
  induction fuel as [|f IH]; intros s ex [Hs Hw]; [apply post_nofuel|]. cbn [terminate].
  eapply post_bind; [apply next_term_post|]. intros [[i e]|] Hr; [|apply post_ret; split; assumption].
  destruct Hr as (g & Hg & He).
  pose proof (add_node_nodes G s (se_v e) None false false false) as (N1 & E1 & I1).
  destruct (add_node G s (se_v e) None false false false) as [st1 nid] eqn:Ea. cbn [fst snd] in N1, E1, I1. subst nid.
  set (st2 := {| a_nodes := a_nodes st1; a_edges := a_edges st1 ++ [{| ge_a := i; ge_b := List.length (a_nodes s); ge_bt := se_bt e; ge_link := true |}];
                 a_mw := a_mw st1; a_draws := a_draws st1 |}).
  assert (Hn : nonstatic G (g_sn g) (se_v e) (se_bt e)).
  { destruct Hs as [L _]. rewrite Forall_forall in L. destruct (L g (nth_error_In _ _ Hg)) as (_ & LE & _). exists e. auto. }
  destruct (link_step_inv G s i g (se_v e) (se_bt e) st2 Hs Hg Hn) as [H2 [g' Hg']].
  { rewrite Ea. reflexivity. } { cbn [st2 a_edges]. rewrite E1. reflexivity. }
  assert (W2 : WInv G (cores st2) (a_edges st2) (Some (List.length (a_nodes s)))) by (eapply (link_step_W G s (se_v e)); [exact Hw|rewrite Ea; reflexivity|cbn [st2 a_edges]; rewrite E1; reflexivity]).
  pose proof (fill_static_inv G st2 _ g' H2 Hg') as H3. pose proof (fill_static_W G st2 _ H2 W2) as W3.
  apply IH. destruct (nth_error (a_nodes (fill_static G st2 (List.length (a_nodes s)))) i) as [gi|] eqn:Ei; [|split; assumption].
  split; [apply set_node_clear_inv; assumption|]. unfold none. eapply W_cores; [apply cores_set_clear; exact Ei|reflexivity|exact W3].
Qed.

Lemma add_conn_AW G s i : AW G none s -> post (add_conn G s i) (fun r => AW G (fun _ => Some (snd r)) (fst r)).
Proof.
  intros [Hs Hw]. unfold add_conn. destruct (nth_error (a_nodes s) i) as [g|] eqn:Eg; [|apply post_fail].
  eapply post_bind; [apply post_true|]. intros k _. destruct (nth_error (g_S g) k) as [e|] eqn:Ee; [|apply post_fail].
  assert (Hn : nonstatic G (g_sn g) (se_v e) (se_bt e)).
  { destruct Hs as [L _]. rewrite Forall_forall in L. destruct (L g (nth_error_In _ _ Eg)) as (_ & _ & LS). exists e. split; [right; right; apply LS; eapply nth_error_In; eauto|auto]. }
  pose proof (set_node_clear_inv G s i g Hs Eg) as H1. pose proof (cores_set_clear s i g Eg) as Hc1.
  set (s1 := set_node s i (clear_node g)) in *.
  assert (Hlen : List.length (a_nodes s1) = List.length (a_nodes s)) by (rewrite <- (map_length core (a_nodes s1)), <- (map_length core (a_nodes s)); f_equal; exact Hc1).
  assert (Eg1 : exists g1, nth_error (a_nodes s1) i = Some g1 /\ g_sn g1 = g_sn g).
  { assert (Hm : nth_error (cores s1) i = nth_error (cores s) i) by (f_equal; exact Hc1). unfold cores in Hm.
    rewrite !nth_error_map, Eg in Hm. destruct (nth_error (a_nodes s1) i) as [g1|]; [|discriminate]. cbn [option_map] in Hm. injection Hm as Hsn _. eauto. }
  destruct Eg1 as (g1 & Eg1 & Hsn).
  pose proof (add_node_nodes G s1 (se_v e) None false false false) as (N1 & E1 & I1).
  destruct (add_node G s1 (se_v e) None false false false) as [st2 nid] eqn:Ea. cbn [fst snd] in N1, E1, I1. subst nid.
  apply post_ret. cbn [fst snd]. split.
  - eapply (link_step_inv G s1 i g1 (se_v e) (se_bt e)); [exact H1|exact Eg1|rewrite Hsn; exact Hn|cbn [a_nodes]; rewrite Ea; reflexivity|cbn [a_edges]; rewrite E1; reflexivity].
  - eapply (link_step_W G s1 (se_v e)); [eapply W_cores; [exact Hc1|reflexivity|exact Hw]|cbn [a_nodes]; rewrite Ea; reflexivity|cbn [a_edges]; rewrite E1; reflexivity].
Qed.

Lemma stoch_loop_AW G : forall fuel s, AW G none s -> post (stoch_loop fuel G s) (AW G none).
Proof.
  induction fuel as [|f IH]; intros s [Hs Hw]; [apply post_nofuel|]. cbn [stoch_loop].
  eapply post_bind; [apply post_true|]. intros [ex|] _; [|apply post_ret; split; assumption].
  eapply post_bind; [apply post_with_fuel; intros f'; apply terminate_AW; split; assumption|]. intros capped [Hc Wc].
  eapply post_bind; [apply target_of_nodes|]. intros [T capped'] [HN HE]. cbn [snd] in HN, HE.
  destruct (negb (Qle_bool T (head_mw capped'))).
  - eapply post_bind; [apply add_conn_AW; split; [eapply AInv_ext; [| |exact Hs]; reflexivity|exact Hw]|].
    intros r [Hr Wr]. apply IH. pose proof Wr as [[_ [sn Hp]] _].
    unfold cores in Hp. rewrite nth_error_map in Hp. destruct (nth_error (a_nodes (fst r)) (snd r)) as [g'|] eqn:Eg'; [|discriminate].
    split; [eapply fill_static_inv; eauto|]. apply fill_static_W; [exact Hr|exact Wr].
  - apply post_ret. split; [apply clear_ES_inv; eapply AInv_ext; [exact HN|exact HE|exact Hc]|].
    unfold none. eapply W_cores; [| |exact Wc]; cbn [a_nodes a_edges]; [|exact HE].
    unfold cores. cbn [a_nodes]. rewrite map_map, HN. apply map_ext. reflexivity.
Qed.

Lemma fill_stoch_AW G s last : AInv G s -> WInv G (cores s) (a_edges s) (Some last) -> post (fill_stoch G s last) (AW G none).
Proof.
  intros Hs Hw. pose proof Hw as [[_ [sn Hp]] _]. unfold cores in Hp. rewrite nth_error_map in Hp.
  destruct (nth_error (a_nodes s) last) as [g|] eqn:Eg; [|discriminate].
  unfold fill_stoch. eapply post_bind.
  - apply post_with_fuel; intros f. apply stoch_loop_AW. split; [eapply fill_static_inv; eauto|apply fill_static_W; assumption].
  - intros s' [H' W']. apply post_ret. split; [eapply AInv_ext; [| |exact H']; reflexivity|exact W'].
Qed.

Lemma trans_loop_AW G : forall fuel s nid, AInv G s -> WInv G (cores s) (a_edges s) (Some nid) -> post (trans_loop fuel G s nid) (AW G none).
Proof.
  induction fuel as [|f IH]; intros s nid Hs Hw; [apply post_nofuel|]. cbn [trans_loop].
  eapply post_bind; [apply fill_stoch_AW; assumption|]. intros s1 [H1 W1].
  eapply post_bind; [apply post_true|]. intros i _. destruct (nth_error (a_nodes s1) i) as [gi|] eqn:Ei; [|apply post_fail].
  destruct (g_T gi) as [|t ts] eqn:ET; [apply post_ret; split; assumption|]. rewrite <- ET.
  eapply post_bind; [apply post_true|]. intros k _. destruct (nth_error (g_T gi) k) as [e|] eqn:Ee; [|apply post_fail].
  assert (Hn : nonstatic G (g_sn gi) (se_v e) (se_bt e)).
  { destruct H1 as [L _]. rewrite Forall_forall in L. destruct (L gi (nth_error_In _ _ Ei)) as (LT & _ & _). exists e. split; [left; apply LT; eapply nth_error_In; eauto|auto]. }
  pose proof (clear_T_inv G s1 H1) as Hc.
  set (cleared := {| a_nodes := map (fun g0 => {| g_sn := g_sn g0; g_inst := g_inst g0; g_T := []; g_E := g_E g0; g_S := g_S g0 |}) (a_nodes s1);
                     a_edges := a_edges s1; a_mw := a_mw s1; a_draws := a_draws s1 |}) in *.
  assert (Hcc : cores cleared = cores s1) by (unfold cores; cbn [cleared a_nodes]; rewrite map_map; apply map_ext; reflexivity).
  assert (Eic : exists gc, nth_error (a_nodes cleared) i = Some gc /\ g_sn gc = g_sn gi).
  { cbn [cleared a_nodes]. rewrite nth_error_map, Ei. cbn [option_map]. eexists. split; reflexivity. }
  destruct Eic as (gc & Eic & Hsn).
  pose proof (add_node_nodes G cleared (se_v e) None false false false) as (N1 & E1 & I1).
  destruct (add_node G cleared (se_v e) None false false false) as [st2 nid'] eqn:Ea. cbn [fst snd] in N1, E1, I1. subst nid'.
  edestruct (link_step_inv G cleared i gc (se_v e) (se_bt e)) as [H2 [g2 Hg2]]; [exact Hc|exact Eic|rewrite Hsn; exact Hn| | |].
  3:{ eapply IH; [exact H2|]. eapply (link_step_W G cleared (se_v e)); [eapply W_cores; [exact Hcc|reflexivity|exact W1]|cbn [a_nodes]; rewrite Ea; reflexivity|cbn [a_edges]; rewrite E1; reflexivity]. }
  - cbn [a_nodes]. rewrite Ea. reflexivity.
  - cbn [a_edges]. rewrite E1. reflexivity.
Qed.

(* for every graph, start node, pick stream and draws: every residue instance is whole *)
Theorem agen_whole G start pk tg st rs : run_agen G start pk tg = Done st rs ->
  forall r g, nth_error (a_nodes st) r = Some g -> g_inst g = r ->
  members r (cores st) = g_sn g :: others G (g_sn g) /\ bonds_at G (cores st) (a_edges st) r.
Proof.
  unfold run_agen, agen. pose proof (init_inv G start) as H0.
  destruct (add_node G _ start None true true true) as [st0 nid] eqn:Ea. cbn [fst] in H0.
  assert (W0 : WInv G (cores st0) (a_edges st0) (Some nid)).
  { unfold add_node in Ea. injection Ea as <- <-. unfold cores. cbn [a_nodes a_edges List.length app map core g_sn g_inst]. split.
    - cbn [pend_ok List.length]. split; [reflexivity|]. exists start. reflexivity.
    - intros r Hr cr Hn Hs. destruct r as [|r]; [congruence|]. destruct r; discriminate. }
  intros E r g Hg Hi.
  assert (HA : AW G none st).
  { eapply (post_with_fuel (fun f => trans_loop f G st0 nid) (AW G none)); [|exact E]. intros f. apply trans_loop_AW; assumption. }
  destruct HA as [_ [_ HW]]. specialize (HW r ltac:(discriminate) (core g)). cbn [core fst snd] in HW. apply HW; [|exact Hi].
  unfold cores. rewrite nth_error_map, Hg. reflexivity.
Qed.

(* with Proofs/DfsP.v: the atoms of a residue instance are pairwise different atoms of the graph, closed under static adjacency *)
Theorem agen_residue_closed G start pk tg st rs : run_agen G start pk tg = Done st rs -> wf_graph G ->
  forall r g, nth_error (a_nodes st) r = Some g -> g_inst g = r -> g_sn g < List.length (sg_nodes G) ->
  NoDup (members r (cores st)) /\
  (forall u, In u (members r (cores st)) -> forall v, In v (sn_adj (snode_at G u)) -> In v (members r (cores st))).
Proof.
  intros H Hwf r g Hg Hi Hlt. rewrite (proj1 (agen_whole G start pk tg st rs H r g Hg Hi)).
  pose proof (dfs_order_nodup G (g_sn g)) as ND. pose proof (dfs_order_closed G (g_sn g) Hwf Hlt) as CL.
  destruct (dfs_order_head G (g_sn g)) as [rest Hd].
  assert (Hperm : forall x, In x (g_sn g :: others G (g_sn g)) <-> In x (dfs_order G (g_sn g))).
  { intros x. unfold others. cbn [In]. rewrite filter_In. split.
    - intros [<-|[K _]]; [rewrite Hd; left; reflexivity|exact K].
    - intros K. destruct (Nat.eq_dec x (g_sn g)) as [->|Hne]; [left; reflexivity|right; split; [exact K|]]. apply negb_true_iff, Nat.eqb_neq. exact Hne. }
  split.
  - constructor.
    + unfold others. rewrite filter_In. intros [_ K]. rewrite Nat.eqb_refl in K. discriminate.
    + unfold others. apply NoDup_filter. exact ND.
  - intros u Hu v Hv. apply Hperm. apply Hperm in Hu. eapply CL; eauto.
Qed.
