(* The static completion's depth-first search (Model/AGen.v: dfs, dfs_order) is complete: on a graph whose static adjacency stays inside the
   node range it returns, without repetition and starting with the source, a set of nodes closed under static adjacency -- with the fuel the
   model gives it (the distinguished early exit is unreachable). *)
From Coq Require Import List ZArith QArith Bool Arith Lia.
From GBS Require Import Model.PyStr Model.Num Model.Bond Model.Select Model.Gen Model.AGen.
Import ListNotations.
Open Scope nat_scope.

Definition mem (m : nat) (l : list nat) : bool := existsb (Nat.eqb m) l.
Lemma mem_In m l : mem m l = true <-> In m l.
Proof. unfold mem. rewrite existsb_exists. split; [intros (x & H & E); apply Nat.eqb_eq in E; subst; exact H|intros H; exists m; split; [exact H|apply Nat.eqb_refl]]. Qed.
Lemma mem_false m l : mem m l = false <-> ~ In m l.
Proof. rewrite <- mem_In. destruct (mem m l); split; congruence. Qed.

(* ---- no repetition, prefix ---- *)
Lemma dfs_prefix G : forall fuel stack order, exists ext, dfs fuel G stack order = rev order ++ ext.
Proof.
  induction fuel as [|f IH]; intros stack order; cbn [dfs]; [exists []; rewrite app_nil_r; reflexivity|].
  destruct stack as [|[|m ms] rest]; [exists []; rewrite app_nil_r; reflexivity|apply IH|].
  destruct (existsb (Nat.eqb m) order); [apply IH|]. destruct (IH (sn_adj (snode_at G m) :: ms :: rest) (m :: order)) as [ext E].
  exists (m :: ext). rewrite E. cbn [rev]. rewrite <- app_assoc. reflexivity.
Qed.

Lemma dfs_nodup G : forall fuel stack order, NoDup order -> NoDup (dfs fuel G stack order).
Proof.
  induction fuel as [|f IH]; intros stack order H; cbn [dfs]; [apply NoDup_rev; exact H|].
  destruct stack as [|[|m ms] rest]; [apply NoDup_rev; exact H|apply IH; exact H|].
  destruct (existsb (Nat.eqb m) order) eqn:E; [apply IH; exact H|]. apply IH. constructor; [|exact H]. apply mem_false. exact E.
Qed.

Theorem dfs_order_nodup G src : NoDup (dfs_order G src).
Proof. apply dfs_nodup. constructor. Qed.

Theorem dfs_order_head G src : exists rest, dfs_order G src = src :: rest.
Proof.
  unfold dfs_order. set (t := fold_right (fun u a => adj_weight G u + a) 0 (seq 0 (List.length (sg_nodes G)))).
  change (dfs (S (S (S t))) G [[src]] []) with (dfs (S (S t)) G [sn_adj (snode_at G src); []] [src]).
  destruct (dfs_prefix G (S (S t)) [sn_adj (snode_at G src); []] [src]) as [ext E]. exists ext. rewrite E. reflexivity.
Qed.

(* ---- completeness ---- *)
Definition usum (G : sgraph) (U : list nat) (order : list nat) : nat :=
  fold_right (fun u a => (if mem u order then 0 else adj_weight G u) + a) 0 U.

Lemma usum_notin G m : forall U order, ~ In m U -> usum G U (m :: order) = usum G U order.
Proof.
  induction U as [|u U IH]; intros order H; cbn [usum fold_right]; [reflexivity|]. fold (usum G U (m :: order)). fold (usum G U order).
  rewrite IH by (intros K; apply H; right; exact K). unfold mem. cbn [existsb].
  destruct (Nat.eqb_spec u m) as [->|]; [exfalso; apply H; left; reflexivity|]. reflexivity.
Qed.

Lemma usum_visit G m : forall U order, NoDup U -> In m U -> mem m order = false -> usum G U (m :: order) + adj_weight G m = usum G U order.
Proof.
  induction U as [|u U IH]; intros order Hn Hi Hm; [destruct Hi|]. cbn [usum fold_right]. fold (usum G U (m :: order)). fold (usum G U order).
  inversion Hn as [|x y Hx Hy]; subst. destruct Hi as [->|Hi].
  - rewrite usum_notin by exact Hx. rewrite Hm. unfold mem. cbn [existsb]. rewrite Nat.eqb_refl. cbn [orb]. lia.
  - specialize (IH order Hy Hi Hm). assert (u <> m) by (intros ->; contradiction).
    replace (mem u (m :: order)) with (mem u order); [lia|]. unfold mem. cbn [existsb]. destruct (Nat.eqb_spec u m); [contradiction|reflexivity].
Qed.

Definition stack_w (stack : list (list nat)) : nat := fold_right (fun l a => S (List.length l) + a) 0 stack.

Definition wf_graph (G : sgraph) : Prop :=
  forall u, u < List.length (sg_nodes G) -> Forall (fun v => v < List.length (sg_nodes G)) (sn_adj (snode_at G u)).

Definition pending (G : sgraph) (stack : list (list nat)) (order : list nat) : Prop :=
  forall u, In u order -> forall v, In v (sn_adj (snode_at G u)) -> In v order \/ exists l, In l stack /\ In v l.
Definition closed (G : sgraph) (R : list nat) : Prop := forall u, In u R -> forall v, In v (sn_adj (snode_at G u)) -> In v R.

Lemma dfs_closed G : wf_graph G -> forall fuel stack order,
  stack_w stack + usum G (seq 0 (List.length (sg_nodes G))) order < fuel ->
  Forall (Forall (fun v => v < List.length (sg_nodes G))) stack -> pending G stack order -> closed G (dfs fuel G stack order).
Proof.
  intros Hwf. set (n := List.length (sg_nodes G)). induction fuel as [|f IH]; intros stack order Hf Hs Hp; [lia|]. cbn [dfs].
  destruct stack as [|[|m ms] rest].
  - intros u Hu v Hv. rewrite <- in_rev in Hu. rewrite <- in_rev. destruct (Hp u Hu v Hv) as [K|(l & [] & _)]. exact K.
  - apply IH; [cbn [stack_w fold_right List.length] in Hf; fold (stack_w rest) in Hf; lia|inversion Hs; assumption|].
    intros u Hu v Hv. destruct (Hp u Hu v Hv) as [K|(l & [<-|Hl] & Hvl)]; [left; exact K|destruct Hvl|right; exists l; auto].
  - inversion Hs as [|x y Hx Hy]; subst. inversion Hx as [|x' y' Hm Hms]; subst.
    cbn [stack_w fold_right List.length] in Hf. fold (stack_w rest) in Hf.
    destruct (existsb (Nat.eqb m) order) eqn:E.
    + apply IH; [cbn [stack_w fold_right]; fold (stack_w rest); lia|constructor; assumption|].
      intros u Hu v Hv. destruct (Hp u Hu v Hv) as [K|(l & [<-|Hl] & Hvl)]; [left; exact K| |right; exists l; split; [right; exact Hl|exact Hvl]].
      destruct Hvl as [<-|Hvl]; [left; apply mem_In; exact E|right; exists ms; split; [left; reflexivity|exact Hvl]].
    + pose proof (usum_visit G m (seq 0 n) order (seq_NoDup n 0) ltac:(apply in_seq; lia) E) as Hu.
      apply IH.
      * cbn [stack_w fold_right]. fold (stack_w rest). unfold adj_weight in Hu. fold n. lia.
      * constructor; [apply Hwf; exact Hm|]. constructor; assumption.
      * intros u Hu' v Hv. destruct Hu' as [<-|Hu'].
        -- right. exists (sn_adj (snode_at G m)). split; [left; reflexivity|exact Hv].
        -- destruct (Hp u Hu' v Hv) as [K|(l & [<-|Hl] & Hvl)]; [left; right; exact K| |right; exists l; split; [right; right; exact Hl|exact Hvl]].
           destruct Hvl as [<-|Hvl]; [left; left; reflexivity|right; exists ms; split; [right; left; reflexivity|exact Hvl]].
Qed.

(* all atoms of the token: the order is closed under static adjacency *)
Theorem dfs_order_closed G src : wf_graph G -> src < List.length (sg_nodes G) -> closed G (dfs_order G src).
Proof.
  intros Hwf Hs. unfold dfs_order. apply dfs_closed; [exact Hwf| | |].
  - cbn [stack_w fold_right List.length]. unfold usum.
    replace (fold_right (fun u a => (if mem u [] then 0 else adj_weight G u) + a) 0 (seq 0 (List.length (sg_nodes G))))
      with (fold_right (fun u a => adj_weight G u + a) 0 (seq 0 (List.length (sg_nodes G)))); [lia|].
    induction (seq 0 (List.length (sg_nodes G))) as [|u l IHl]; cbn [fold_right mem existsb]; [reflexivity|]. rewrite IHl. reflexivity.
  - constructor; [constructor; [exact Hs|constructor]|constructor].
  - intros u [].
Qed.
