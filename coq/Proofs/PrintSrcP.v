(* Tie T for the printers above the descriptor: Src/SrcPrint.v holds the pieces and decisions of Stochastic.generate_string REGENERATED from
   stochastic.py, and the two forms of Mixture.generate_string; the generate_string methods of SmilesToken, Molecule and System are compared as
   text (loops that append the parts' own generate_string).  The object printer rebuilt from the regenerated pieces is proved equal to
   Model/Stoch.v's print_stoch. *)
From Coq Require Import List ZArith QArith Ascii String Bool Lia.
From GBS Require Import Model.PyStr Model.Num Model.Bond Model.Token Model.DistFam Src.SrcDist Model.Stoch Src.SrcPrint Proofs.StrP.
Import ListNotations.
Open Scope Z_scope.
Open Scope list_scope.

Lemma slice_cut2 (a b : str) : 2 <= len b -> slice (a ++ b) None (Some (-2)) = (a ++ slice b None (Some (-2)))%list.
Proof.
  intros H. unfold slice, norm_idx. rewrite len_app. pose proof (len_nonneg a).
  change (-2 <? 0) with true. cbv iota. cbn [Z.to_nat skipn].
  replace (Z.max 0 (Z.min (len a + len b) (-2 + (len a + len b))) - 0) with (len a + (len b - 2)) by lia.
  replace (Z.max 0 (Z.min (len b) (-2 + len b)) - 0) with (len b - 2) by lia.
  rewrite Z2Nat.inj_add by lia. unfold len at 1. rewrite Nat2Z.id. apply firstn_app_2.
Qed.

Section PrintSrcP.
  Variable fprint : num -> str.
  Variable dprint : bool -> family * str -> str.

  Definition print_stoch_src (ext : bool) (s : pstoch) : str :=
    let pd := print_descr fprint ext in
    let pt := print_token fprint ext in
    let add := fun acc t => (acc ++ ps_item pt t)%list in
    let s0 := (lit "{" ++ ps_left_text pd (ps_left s))%list in
    let s1 := fold_left add (ps_rep s) s0 in
    let s2 := if ps_has_rep (List.length (ps_rep s)) then ps_cut s1 else s1 in
    let s3 := if ps_has_end (List.length (ps_end s)) then ps_cut (fold_left add (ps_end s) (s2 ++ ps_sep)%list) else s2 in
    let s4 := ((s3 ++ ps_right_text pd (ps_right s)) ++ ps_close)%list in
    let s5 := if ps_has_dist (ps_dist s) then (s4 ++ ps_dist_text (match ps_dist s with Some d => dprint ext d | None => [] end))%list else s4 in
    strip s5.

  Lemma fold_items (pt : token -> str) : forall l (s : list ascii),
    fold_left (fun (acc : list ascii) (t : token) => (acc ++ ps_item pt t)%list) l s = (s ++ List.concat (map (fun t => (pt t ++ lit ", ")%list) l))%list.
  Proof. induction l as [|t l IH]; intros s; cbn [fold_left map List.concat]; [symmetry; apply app_nil_r|]. rewrite IH, app_assoc. reflexivity. Qed.

  Lemma items_long (pt : token -> str) t l : 2 <= len (List.concat (map (fun t => (pt t ++ lit ", ")%list) (t :: l))).
  Proof. cbn [map List.concat]. rewrite !len_app. change (len (lit ", ")) with 2. pose proof (len_nonneg (pt t)). pose proof (len_nonneg (List.concat (map (fun t0 => (pt t0 ++ lit ", ")%list) l))). lia. Qed.

  Lemma cut_items (pt : token -> str) (s : str) l : l <> [] ->
    ps_cut (s ++ List.concat (map (fun t => (pt t ++ lit ", ")%list) l))%list = (s ++ slice (List.concat (map (fun t => (pt t ++ lit ", ")%list) l)) None (Some (-2)))%list.
  Proof. intros H. destruct l as [|t l]; [contradiction|]. unfold ps_cut. apply slice_cut2. apply items_long. Qed.

  Lemma has_is n : Z.ltb 0 (Z.of_nat n) = negb (Nat.eqb n 0).
  Proof. destruct n; [reflexivity|]. apply Z.ltb_lt. lia. Qed.

  Theorem print_stoch_is_source ext s : print_stoch_src ext s = print_stoch fprint dprint ext s.
  Proof.
    unfold print_stoch_src, print_stoch, join_tokens, ps_has_rep, ps_has_end, ps_left_text, ps_right_text, ps_close, ps_sep, ps_has_dist, ps_dist_text. cbv zeta.
    rewrite !has_is. f_equal. rewrite !fold_items.
    assert (R : (if negb (Nat.eqb (List.length (ps_rep s)) 0)
                 then ps_cut ((lit "{" ++ print_descr fprint ext (ps_left s)) ++ List.concat (map (fun t => (print_token fprint ext t ++ lit ", ")%list) (ps_rep s)))%list
                 else ((lit "{" ++ print_descr fprint ext (ps_left s)) ++ List.concat (map (fun t => (print_token fprint ext t ++ lit ", ")%list) (ps_rep s)))%list)
                = ((lit "{" ++ print_descr fprint ext (ps_left s)) ++ slice (List.concat (map (fun t => (print_token fprint ext t ++ lit ", ")%list) (ps_rep s))) None (Some (-2)))%list).
    { destruct (ps_rep s) as [|t l]; [cbn; rewrite app_nil_r; reflexivity|]. cbn [List.length Nat.eqb negb]. apply cut_items. discriminate. }
    rewrite R. clear R.
    destruct (ps_end s) as [|t l] eqn:Ee; cbn [List.length Nat.eqb negb].
    - destruct (ps_dist s); rewrite <- ?app_assoc; reflexivity.
    - rewrite cut_items by discriminate. destruct (ps_dist s); rewrite <- ?app_assoc; reflexivity.
  Qed.
End PrintSrcP.
