open Ascii
open BinInt
open BinNums
open Datatypes
open List0
open Nat0
open PeanoNat
open String0

type str = char list

(** val lit : char list -> str **)

let lit =
  list_ascii_of_string

(** val ch : char list -> char **)

let ch = function
| [] -> zero
| c::_ -> c

(** val str_eqb : str -> str -> bool **)

let rec str_eqb a b =
  match a with
  | [] -> (match b with
           | [] -> true
           | _ :: _ -> false)
  | x :: a' ->
    (match b with
     | [] -> false
     | y :: b' -> (&&) ((=) x y) (str_eqb a' b'))

(** val is_prefix : str -> str -> bool **)

let rec is_prefix p s =
  match p with
  | [] -> true
  | x :: p' ->
    (match s with
     | [] -> false
     | y :: s' -> (&&) ((=) x y) (is_prefix p' s'))

(** val len : str -> coq_Z **)

let len s =
  Z.of_nat (length s)

(** val find_from : str -> str -> coq_Z -> coq_Z **)

let rec find_from p s i =
  if is_prefix p s
  then i
  else (match s with
        | [] -> Zneg Coq_xH
        | _ :: s' -> find_from p s' (Z.add i (Zpos Coq_xH)))

(** val find : str -> str -> coq_Z **)

let find p s =
  find_from p s Z0

(** val contains : str -> str -> bool **)

let contains p s =
  Z.geb (find p s) Z0

(** val rfind_from : str -> str -> coq_Z -> coq_Z -> coq_Z **)

let rec rfind_from p s i best =
  let best' = if is_prefix p s then i else best in
  (match s with
   | [] -> best'
   | _ :: s' -> rfind_from p s' (Z.add i (Zpos Coq_xH)) best')

(** val rfind : str -> str -> coq_Z **)

let rfind p s =
  rfind_from p s Z0 (Zneg Coq_xH)

(** val norm_idx : coq_Z -> coq_Z -> coq_Z **)

let norm_idx n i =
  let i' = if Z.ltb i Z0 then Z.add i n else i in Z.max Z0 (Z.min n i')

(** val slice : str -> coq_Z option -> coq_Z option -> str **)

let slice s a b =
  let n = len s in
  let a' = match a with
           | Some a0 -> norm_idx n a0
           | None -> Z0 in
  let b' = match b with
           | Some b0 -> norm_idx n b0
           | None -> n in
  firstn (Z.to_nat (Z.sub b' a')) (skipn (Z.to_nat a') s)

(** val index : str -> coq_Z -> char option **)

let index s i =
  let n = len s in
  let i' = if Z.ltb i Z0 then Z.add i n else i in
  if (||) (Z.ltb i' Z0) (Z.leb n i') then None else nth_error s (Z.to_nat i')

(** val count_char : char -> str -> coq_Z **)

let rec count_char c = function
| [] -> Z0
| x :: s' -> Z.add (if (=) x c then Zpos Coq_xH else Z0) (count_char c s')

(** val is_ws : char -> bool **)

let is_ws c =
  let n = nat_of_ascii c in
  (||)
    ((||)
      (Nat.eqb n (S (S (S (S (S (S (S (S (S (S (S (S (S (S (S (S (S (S (S (S
        (S (S (S (S (S (S (S (S (S (S (S (S O)))))))))))))))))))))))))))))))))
      ((&&) (Nat.leb (S (S (S (S (S (S (S (S (S O))))))))) n)
        (Nat.leb n (S (S (S (S (S (S (S (S (S (S (S (S (S O))))))))))))))))
    ((&&)
      (Nat.leb (S (S (S (S (S (S (S (S (S (S (S (S (S (S (S (S (S (S (S (S (S
        (S (S (S (S (S (S (S O)))))))))))))))))))))))))))) n)
      (Nat.leb n (S (S (S (S (S (S (S (S (S (S (S (S (S (S (S (S (S (S (S (S
        (S (S (S (S (S (S (S (S (S (S (S O)))))))))))))))))))))))))))))))))

(** val lstrip_by : (char -> bool) -> str -> str **)

let rec lstrip_by f s = match s with
| [] -> []
| c :: s' -> if f c then lstrip_by f s' else s

(** val rstrip_by : (char -> bool) -> str -> str **)

let rstrip_by f s =
  rev (lstrip_by f (rev s))

(** val strip_by : (char -> bool) -> str -> str **)

let strip_by f s =
  rstrip_by f (lstrip_by f s)

(** val strip : str -> str **)

let strip =
  strip_by is_ws

(** val in_set : str -> char -> bool **)

let in_set set c =
  existsb ((=) c) set

(** val strip_chars : str -> str -> str **)

let strip_chars set =
  strip_by (in_set set)

(** val split_ws_aux : str -> str -> str list **)

let rec split_ws_aux s cur =
  match s with
  | [] -> (match cur with
           | [] -> []
           | _ :: _ -> (rev cur) :: [])
  | c :: s' ->
    if is_ws c
    then (match cur with
          | [] -> split_ws_aux s' []
          | _ :: _ -> (rev cur) :: (split_ws_aux s' []))
    else split_ws_aux s' (c :: cur)

(** val split_ws : str -> str list **)

let split_ws s =
  split_ws_aux s []

(** val is_digit : char -> bool **)

let is_digit c =
  let n = nat_of_ascii c in
  (&&)
    (Nat.leb (S (S (S (S (S (S (S (S (S (S (S (S (S (S (S (S (S (S (S (S (S
      (S (S (S (S (S (S (S (S (S (S (S (S (S (S (S (S (S (S (S (S (S (S (S (S
      (S (S (S O)))))))))))))))))))))))))))))))))))))))))))))))) n)
    (Nat.leb n (S (S (S (S (S (S (S (S (S (S (S (S (S (S (S (S (S (S (S (S (S
      (S (S (S (S (S (S (S (S (S (S (S (S (S (S (S (S (S (S (S (S (S (S (S (S
      (S (S (S (S (S (S (S (S (S (S (S (S
      O))))))))))))))))))))))))))))))))))))))))))))))))))))))))))

(** val digit_val : char -> coq_Z **)

let digit_val c =
  Z.sub (Z.of_nat (nat_of_ascii c)) (Zpos (Coq_xO (Coq_xO (Coq_xO (Coq_xO
    (Coq_xI Coq_xH))))))

(** val pos_digits_aux : nat -> coq_Z -> str -> str **)

let rec pos_digits_aux fuel n acc =
  match fuel with
  | O -> acc
  | S f ->
    let d =
      ascii_of_nat
        (add (Z.to_nat (Z.modulo n (Zpos (Coq_xO (Coq_xI (Coq_xO Coq_xH))))))
          (S (S (S (S (S (S (S (S (S (S (S (S (S (S (S (S (S (S (S (S (S (S
          (S (S (S (S (S (S (S (S (S (S (S (S (S (S (S (S (S (S (S (S (S (S
          (S (S (S (S O)))))))))))))))))))))))))))))))))))))))))))))))))
    in
    if Z.ltb n (Zpos (Coq_xO (Coq_xI (Coq_xO Coq_xH))))
    then d :: acc
    else pos_digits_aux f (Z.div n (Zpos (Coq_xO (Coq_xI (Coq_xO Coq_xH)))))
           (d :: acc)

(** val z_to_str : coq_Z -> str **)

let z_to_str n =
  if Z.ltb n Z0
  then (ch ('-'::[])) :: (pos_digits_aux (S (Z.to_nat (Z.log2 (Z.opp n))))
                           (Z.opp n) [])
  else pos_digits_aux (S (Z.to_nat (Z.log2 n))) n []
