open BinInt
open BinNums
open Datatypes
open List0
open Num
open PyStr
open QArith_base
open Qreduction

type order =
| OUnspec
| OSingle
| ODouble
| OTriple
| OQuad
| OArom

type err =
| ERuntime
| EValue
| EIndex
| EType
| EZeroDiv
| EAttr
| EOther
| EFuel

type 'a result =
| OK of 'a
| Err of err * char list

(** val bind : 'a1 result -> ('a1 -> 'a2 result) -> 'a2 result **)

let bind r f =
  match r with
  | OK a -> f a
  | Err (e, m) -> Err (e, m)

type descr = { d_sym : str; d_id : coq_Z option; d_weight : num;
               d_trans : num list option; d_order : order; d_pre : str;
               d_atom : coq_Z option; d_num : coq_Z }

(** val order_eqb : order -> order -> bool **)

let order_eqb a b =
  match a with
  | OUnspec -> (match b with
                | OUnspec -> true
                | _ -> false)
  | OSingle -> (match b with
                | OSingle -> true
                | _ -> false)
  | ODouble -> (match b with
                | ODouble -> true
                | _ -> false)
  | OTriple -> (match b with
                | OTriple -> true
                | _ -> false)
  | OQuad -> (match b with
              | OQuad -> true
              | _ -> false)
  | OArom -> (match b with
              | OArom -> true
              | _ -> false)

(** val id_eqb : coq_Z option -> coq_Z option -> bool **)

let id_eqb a b =
  match a with
  | Some x -> (match b with
               | Some y -> Z.eqb x y
               | None -> false)
  | None -> (match b with
             | Some _ -> false
             | None -> true)

(** val order_of_pre : str -> order **)

let order_of_pre pre =
  let bt = OSingle in
  let bt0 = if contains (lit ('='::[])) pre then ODouble else bt in
  let bt1 = if contains (lit ('#'::[])) pre then OTriple else bt0 in
  let bt2 = if contains (lit ('$'::[])) pre then OQuad else bt1 in
  if contains (lit (':'::[])) pre then OArom else bt2

(** val map_opt : ('a1 -> 'a2 option) -> 'a1 list -> 'a2 list option **)

let rec map_opt f = function
| [] -> Some []
| x :: l' ->
  (match f x with
   | Some y ->
     (match map_opt f l' with
      | Some r -> Some (y :: r)
      | None -> None)
   | None -> None)

(** val num_add : num -> num -> num **)

let num_add a b =
  match a with
  | Fin x -> (match b with
              | Fin y -> Fin (coq_Qred (coq_Qplus x y))
              | x0 -> x0)
  | PInf -> (match b with
             | Fin _ -> PInf
             | PInf -> PInf
             | _ -> NaN)
  | NInf -> (match b with
             | Fin _ -> NInf
             | PInf -> NaN
             | x -> x)
  | NaN -> NaN

(** val num_sum : num list -> num **)

let num_sum l =
  fold_left num_add l (Fin { coq_Qnum = Z0; coq_Qden = Coq_xH })

(** val parse_descr : str -> coq_Z -> str -> coq_Z option -> descr result **)

let parse_descr raw0 dnum pre0 atom =
  if str_eqb raw0 (lit ('['::(']'::[])))
  then OK { d_sym = []; d_id = None; d_weight = (Fin { coq_Qnum = (Zpos
         Coq_xH); coq_Qden = Coq_xH }); d_trans = None; d_order = OUnspec;
         d_pre = pre0; d_atom = None; d_num = dnum }
  else let raw =
         if Z.eqb (len pre0) Z0
         then slice raw0 (Some (find (lit ('['::[])) raw0)) None
         else raw0
       in
       (match index raw Z0 with
        | Some c0 ->
          (match index raw (Zneg Coq_xH) with
           | Some cl ->
             if negb ((&&) ((=) c0 (ch ('['::[]))) ((=) cl (ch (']'::[]))))
             then Err (ERuntime,
                    ('b'::('r'::('a'::('c'::('k'::('e'::('t'::('s'::[])))))))))
             else (match index raw (Zpos Coq_xH) with
                   | Some c1 ->
                     if negb (in_set (lit ('$'::('<'::('>'::[])))) c1)
                     then Err (ERuntime,
                            ('s'::('y'::('m'::('b'::('o'::('l'::[])))))))
                     else let id_end =
                            if contains (lit ('|'::[])) raw
                            then find (lit ('|'::[])) raw
                            else Zneg Coq_xH
                          in
                          let id_str0 =
                            slice raw (Some (Zpos (Coq_xO Coq_xH))) (Some
                              id_end)
                          in
                          if (||) (contains (lit ('['::[])) id_str0)
                               (contains (lit (']'::[])) id_str0)
                          then Err (ERuntime,
                                 ('n'::('e'::('s'::('t'::('e'::('d'::[])))))))
                          else bind
                                 (if Z.gtb (len id_str0) Z0
                                  then (match py_int id_str0 with
                                        | Some z -> OK (Some z)
                                        | None ->
                                          Err (EValue, ('i'::('d'::[]))))
                                  else OK None) (fun id ->
                                 bind
                                   (if contains (lit ('|'::[])) raw
                                    then if negb
                                              (Z.eqb
                                                (count_char (ch ('|'::[]))
                                                  raw) (Zpos (Coq_xO Coq_xH)))
                                         then Err (ERuntime,
                                                ('b'::('a'::('r'::('s'::[])))))
                                         else let ws =
                                                slice raw (Some
                                                  (find (lit ('|'::[])) raw))
                                                  (Some
                                                  (rfind (lit ('|'::[])) raw))
                                              in
                                              (match map_opt py_float
                                                       (split_ws
                                                         (strip_chars
                                                           (lit ('|'::[])) ws)) with
                                               | Some l ->
                                                 (match l with
                                                  | [] ->
                                                    OK ((num_sum l), (Some l))
                                                  | w :: l0 ->
                                                    (match l0 with
                                                     | [] -> OK (w, None)
                                                     | _ :: _ ->
                                                       OK ((num_sum l), (Some
                                                         l))))
                                               | None ->
                                                 Err (EValue,
                                                   ('w'::('e'::('i'::('g'::('h'::('t'::[]))))))))
                                    else OK ((Fin { coq_Qnum = (Zpos Coq_xH);
                                           coq_Qden = Coq_xH }), None))
                                   (fun wt ->
                                   if (||)
                                        ((||) (contains (lit ('@'::[])) pre0)
                                          (contains (lit ('/'::[])) pre0))
                                        (contains (lit ('\\'::[])) pre0)
                                   then Err (ERuntime,
                                          ('s'::('t'::('e'::('r'::('e'::('o'::[])))))))
                                   else OK { d_sym = (c1 :: []); d_id = id;
                                          d_weight = (fst wt); d_trans =
                                          (snd wt); d_order =
                                          (order_of_pre pre0); d_pre = pre0;
                                          d_atom = atom; d_num = dnum }))
                   | None ->
                     Err (EIndex,
                       ('r'::('a'::('w'::('['::('1'::(']'::[]))))))))
           | None ->
             Err (EIndex, ('r'::('a'::('w'::('['::('0'::(']'::[]))))))))
        | None -> Err (EIndex, ('r'::('a'::('w'::('['::('0'::(']'::[]))))))))

(** val compatible : descr -> descr -> bool **)

let compatible a b =
  if negb (order_eqb a.d_order b.d_order)
  then false
  else if negb (id_eqb a.d_id b.d_id)
       then false
       else if (||) (str_eqb a.d_sym []) (str_eqb b.d_sym [])
            then false
            else if (&&) (str_eqb a.d_sym (lit ('$'::[])))
                      (str_eqb b.d_sym (lit ('$'::[])))
                 then true
                 else if (&&) (str_eqb a.d_sym (lit ('<'::[])))
                           (str_eqb b.d_sym (lit ('>'::[])))
                      then true
                      else (&&) (str_eqb a.d_sym (lit ('>'::[])))
                             (str_eqb b.d_sym (lit ('<'::[])))

(** val generable_descr : descr -> bool **)

let generable_descr d =
  num_ge0 d.d_weight

(** val id_str : coq_Z option -> str **)

let id_str = function
| Some z -> z_to_str z
| None -> []

(** val print_descr : (num -> str) -> bool -> descr -> str **)

let print_descr fprint ext d =
  let s = app (lit ('['::[])) (app d.d_sym (id_str d.d_id)) in
  let s0 =
    if (&&) ext
         (match d.d_trans with
          | Some _ -> true
          | None ->
            negb
              (num_eqb d.d_weight (Fin { coq_Qnum = (Zpos Coq_xH); coq_Qden =
                Coq_xH })))
    then (match d.d_trans with
          | Some l ->
            app
              (slice
                (app s
                  (app (lit ('|'::[]))
                    (concat (map (fun t -> app (fprint t) (lit (' '::[]))) l))))
                None (Some (Zneg Coq_xH))) (lit ('|'::[]))
          | None ->
            app s
              (app (lit ('|'::[])) (app (fprint d.d_weight) (lit ('|'::[])))))
    else s
  in
  strip (app s0 (lit (']'::[])))

(** val compatible_bond_text : descr -> str **)

let compatible_bond_text b =
  let sym =
    if str_eqb b.d_sym (lit ('>'::[]))
    then lit ('>'::[])
    else if str_eqb b.d_sym (lit ('<'::[]))
         then lit ('<'::[])
         else lit ('$'::[])
  in
  app b.d_pre
    (app (lit ('['::[])) (app sym (app (id_str b.d_id) (lit (']'::[])))))
