open Datatypes

module Nat :
 sig
  val eqb : nat -> nat -> bool

  val leb : nat -> nat -> bool
 end
