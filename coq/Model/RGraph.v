(* Reaction graph: Molecule.gen_reaction_graph (molecule.py:185-346) over the abstract input of the
   generator model (Model/Gen.v: elements, tokens, descriptors with exact rational weights).
   A descriptor node is (element index, position among the element's descriptors: repeat-token
   descriptors first, then end-token descriptors; for a plain token its own descriptors).
   Only the probability-carrying edges are modelled (residue -> descriptor edges carry no number).
   Executable, no proofs. *)
From Coq Require Import List ZArith QArith Bool Arith.
From GBS Require Import Model.PyStr Model.Num Model.Bond Model.Select Model.Gen.
Import ListNotations.
Open Scope Q_scope.

Inductive ekind := KProb | KTermP | KTransP.
Record redge := { e_src : nat * nat; e_dst : nat * nat; e_kind : ekind; e_p : Q }.

Definition elem_bds (e : gelem) : list descr :=
  match e with ETok t => t_bds t | EStoch s => descrs_of (repb s) ++ descrs_of (endb s) end.
Definition n_rep (e : gelem) : nat := match e with ETok _ => 0%nat | EStoch s => List.length (repb s) end.
Definition wq (d : descr) : Q := match d_weight d with Fin q => q | _ => 0 end.

(* sum of the weights of the candidates of [l] (positions from [k]) selected by [sel] *)
Fixpoint wsum (sel : nat -> descr -> bool) (k : nat) (l : list descr) : Q :=
  match l with [] => 0 | o :: r => (if sel k o then wq o else 0) + wsum sel (S k) r end.

Fixpoint edges_to (src : nat * nat) (ei : nat) (sel : nat -> descr -> bool) (kind : nat -> ekind) (den : nat -> Q)
                  (k : nat) (l : list descr) : list redge :=
  match l with
  | [] => []
  | o :: r =>
      (if sel k o then [{| e_src := src; e_dst := (ei, k); e_kind := kind k; e_p := wq o / den k |}] else [])
      ++ edges_to src ei sel kind den (S k) r
  end.

(* molecule.py:235-263, one descriptor [d] = position [j] of element [ei] *)
Definition intra_edges (ei : nat) (e : gelem) (j : nat) (d : descr) : list redge :=
  match qtrans d with
  | Some (Some tr) =>
      let w := wq d in
      if Qeq_bool w 0 then [] else
      flat_map (fun it => if Qle_bool 0 (snd it / w)
                          then [{| e_src := (ei, j); e_dst := (ei, fst it); e_kind := KProb; e_p := snd it / w |}] else [])
               (index_from 0 tr)
  | Some None =>
      match e with
      | ETok _ => []
      | EStoch s =>
          let nr := n_rep e in
          let bds := elem_bds e in
          let rw := wsum (fun k o => Nat.ltb k nr && compatible d o) 0 bds in
          let ew := wsum (fun k o => negb (Nat.ltb k nr) && compatible d o) 0 bds in
          edges_to (ei, j) ei (fun k o => compatible d o && negb (Qle_bool (wq o) 0))
                   (fun k => if Nat.ltb k nr then KProb else KTermP) (fun k => if Nat.ltb k nr then rw else ew) 0 bds
      end
  | None => []
  end.

(* molecule.py:265-343, transitions from descriptor [d] (position [j] of element [ei]) into the next element *)
Definition inter_edges (ei : nat) (e next : gelem) (j : nat) (d : descr) : list redge :=
  let nb := elem_bds next in
  let nnr := n_rep next in
  match e, next with
  | ETok _, ETok _ =>
      edges_to (ei, j) (S ei) (fun k o => compatible d o) (fun _ => KTransP) (fun k => 1) 0
               (map (fun o => {| d_sym := d_sym o; d_id := d_id o; d_weight := Fin 1; d_trans := d_trans o; d_order := d_order o;
                                 d_pre := d_pre o; d_atom := d_atom o; d_num := d_num o |}) nb)
  | ETok _, EStoch sn =>
      let sel := fun k o => compatible d o && compatible o (s_left sn) && Nat.ltb k nnr in
      let tot := wsum sel 0 nb in
      let tot := if Qle_bool 0 tot && negb (Qle_bool (1 # 10000000000000000) tot) then 1 else tot in
      edges_to (ei, j) (S ei) sel (fun _ => KTransP) (fun _ => tot) 0 nb
  | EStoch s, ETok _ =>
      if compatible d (s_right s) && Nat.ltb j (n_rep e) then
        edges_to (ei, j) (S ei) (fun k o => compatible d o && negb (Qle_bool (wq o) 0)) (fun _ => KTransP) (fun k => 1) 0
                 (map (fun o => {| d_sym := d_sym o; d_id := d_id o; d_weight := (if Qle_bool (wq o) 0 then Fin 0 else Fin 1); d_trans := d_trans o;
                                   d_order := d_order o; d_pre := d_pre o; d_atom := d_atom o; d_num := d_num o |}) nb)
      else []
  | EStoch s, EStoch sn =>
      let sel := fun k o => compatible d o && compatible o (s_left sn) && Nat.ltb k nnr && compatible d (s_right s) && Nat.ltb j (n_rep e) in
      let tot := wsum sel 0 nb in
      let tot := if Qle_bool 0 tot && negb (Qle_bool (1 # 10000000000000000) tot) then 1 else tot in
      edges_to (ei, j) (S ei) sel (fun _ => KTransP) (fun _ => tot) 0 nb
  end.

Fixpoint graph_from (ei : nat) (els : list gelem) : list redge :=
  match els with
  | [] => []
  | e :: r =>
      flat_map (fun jd => intra_edges ei e (fst jd) (snd jd)) (index_from 0 (elem_bds e))
      ++ (match r with
          | next :: _ => flat_map (fun jd => inter_edges ei e next (fst jd) (snd jd)) (index_from 0 (elem_bds e))
          | [] => []
          end)
      ++ graph_from (S ei) r
  end.
Definition reaction_graph (els : list gelem) : list redge := graph_from 0 els.
