(* Numeric literals: the ASCII literal syntax accepted by Python's float() and int(),
   with the exact decimal value as a rational.  Executable model, no proofs. *)
From Coq Require Import List ZArith QArith Ascii String Bool.
From GBS Require Import Model.PyStr.
Import ListNotations.
Open Scope Z_scope.

Inductive num := Fin (q : Q) | PInf | NInf | NaN.

Definition lower (c : ascii) : ascii :=
  let n := nat_of_ascii c in
  if (Nat.leb 65 n && Nat.leb n 90)%bool then ascii_of_nat (n + 32) else c.

(* digitpart ::= digit (["_"] digit)*   -- returns value, number of digits, rest *)
Fixpoint digitpart_aux (s : str) (acc : Z) (n : nat) : option (Z * nat * str) :=
  match s with
  | [] => Some (acc, n, [])
  | c :: s' =>
      if is_digit c then digitpart_aux s' (acc * 10 + digit_val c) (S n)
      else if Ascii.eqb c (ch "_") then
        match n, s' with
        | O, _ => None
        | _, d :: _ => if is_digit d then digitpart_aux s' acc n else None
        | _, [] => None
        end
      else Some (acc, n, s)
  end.
Definition digitpart (s : str) := digitpart_aux s 0 O.

Definition split_sign (s : str) : bool * str :=
  match s with
  | c :: r => if Ascii.eqb c (ch "-") then (true, r)
              else if Ascii.eqb c (ch "+") then (false, r) else (false, s)
  | [] => (false, [])
  end.

Definition pow10 (e : Z) : Q :=
  if e <? 0 then 1 # (Z.to_pos (10 ^ (- e))) else inject_Z (10 ^ e).

(* Python float(text) for ASCII text; None where Python raises ValueError *)
Definition py_float (s0 : str) : option num :=
  let s := strip s0 in
  let '(neg, r) := split_sign s in
  let lr := map lower r in
  if (str_eqb lr (lit "inf") || str_eqb lr (lit "infinity"))%bool then Some (if neg then NInf else PInf)
  else if str_eqb lr (lit "nan") then Some NaN
  else
    match digitpart r with
    | None => None
    | Some (ip, ni, r1) =>
        let frac :=
          match r1 with
          | c :: r1' =>
              if Ascii.eqb c (ch ".") then
                match r1' with
                | d :: _ => if is_digit d then
                              match digitpart r1' with
                              | Some (fp, nf, r2) => Some (fp, nf, r2)
                              | None => None
                              end
                            else Some (0, O, r1')
                | [] => Some (0, O, r1')
                end
              else Some (0, O, r1)
          | [] => Some (0, O, r1)
          end in
        match frac with
        | None => None
        | Some (fp, nf, r2) =>
            if Nat.eqb (ni + nf) 0 then None else
            let ex :=
              match r2 with
              | [] => Some 0
              | c :: r2' =>
                  if Ascii.eqb (lower c) (ch "e") then
                    let '(eneg, r3) := split_sign r2' in
                    match digitpart r3 with
                    | Some (ev, S _, []) => Some (if eneg then - ev else ev)
                    | _ => None
                    end
                  else None
              end in
            match ex with
            | None => None
            | Some e =>
                let m := ip * 10 ^ (Z.of_nat nf) + fp in
                let q := Qred (inject_Z (if neg then - m else m) * pow10 (e - Z.of_nat nf))%Q in
                Some (Fin q)
            end
        end
    end.

(* Python int(text): sign, digits with single underscores, surrounding whitespace *)
Definition py_int (s0 : str) : option Z :=
  let s := strip s0 in
  let '(neg, r) := split_sign s in
  match digitpart r with
  | Some (v, S _, []) => Some (if neg then - v else v)
  | _ => None
  end.

Definition num_eqb (a b : num) : bool :=
  match a, b with
  | Fin x, Fin y => Qeq_bool x y
  | PInf, PInf | NInf, NInf => true
  | _, _ => false   (* NaN is not equal to itself, as in Python *)
  end.

(* x >= 0 in Python float comparison (NaN compares false) *)
Definition num_ge0 (a : num) : bool :=
  match a with Fin x => Qle_bool 0 x | PInf => true | _ => false end.
