(* Ensemble generation: system.py:156-186.  Molecule generation is abstracted as the stream of
   molecules it produces (component, heavy-atom mass, fully generated?).  Executable, no proofs. *)
From Coq Require Import List ZArith QArith Bool String.
From GBS Require Import Model.PyStr Model.Num Model.Bond Model.Select Model.Sys.
Import ListNotations.
Open Scope Q_scope.

Record member := { mb_comp : nat; mb_mass : Q; mb_full : bool }.
Inductive lres := LStop | LNeed | LErr | LYield (m : member) (rest : lres).

(* while generated_total_mass < system_mass: generate; add mass; require full; yield *)
Fixpoint sys_loop (S acc : Q) (stream : list member) : lres :=
  if Qlt_bool acc S then
    match stream with
    | [] => LNeed
    | m :: r => if mb_full m then LYield m (sys_loop S (acc + mb_mass m) r) else LErr
    end
  else LStop.

Fixpoint yielded (r : lres) : list member := match r with LYield m r' => m :: yielded r' | _ => [] end.
Fixpoint ending (r : lres) : lres := match r with LYield _ r' => ending r' | x => x end.

(* System.generator / System.generate guards: [generable] is System.generable *)
Inductive call := CIterate | CSingle.
Definition guard (generable : bool) (c : call) : bool := generable.   (* both entry points refuse when not generable *)

(* the component pick law: p = relative masses / their sum (system.py:161-165, 176-179) *)
Definition comp_law (rel : list Q) : list Q := map (fun r => r / total rel) rel.

(* long-run share of the generated mass of component i when components are picked with law p and
   have mean molecule masses m (renewal-reward): p_i m_i / sum_j p_j m_j *)
Definition pm (p m : list Q) : list Q := map (fun x => fst x * snd x) (combine p m).
Definition share (p m : list Q) : list Q := map (fun x => x / total (pm p m)) (pm p m).
