(* SMILES tokens with bond descriptors: token.py (SmilesToken.__init__, generate_string,
   generate_smiles_fragment), statement by statement.  The in-place re-splitting of the element
   list in the second pass is written as a work-list (done / todo); the position tests
   `element_counter != 0`, `!= len(elements) - 1` become tests on the two list lengths.
   Atom validity (RDKit) is the oracle [valid_atom].  Loops run on fuel; OutOfFuel is a distinct
   result.  Executable model, no proofs. *)
From Coq Require Import List ZArith QArith Ascii String Bool.
From GBS Require Import Model.PyStr Model.Num Model.Bond.
Import ListNotations.
Open Scope Z_scope.

Inductive tel := TAtom (s : str) | TStr (s : str) | TBond (d : descr).
Record token := { k_elements : list tel; k_atoms : list str; k_bds : list descr }.

Definition single_letters : str := lit "BCNOPSFIcnspo".
Definition is_double (a b : ascii) : bool :=
  (Ascii.eqb a (ch "C") && Ascii.eqb b (ch "l")) || (Ascii.eqb a (ch "B") && Ascii.eqb b (ch "r")).
Definition has_descr_char (s : str) : bool := contains (lit "$") s || contains (lit "<") s || contains (lit ">") s.

Section Token.
  Variable valid_atom : str -> bool.        (* Atom(text) succeeds: RDKit parses it as exactly one atom *)

  Definition flush (sub : str) (els : list tel) : list tel := match sub with [] => els | _ => TStr sub :: els end.

  (* token.py:72-119; [els] is accumulated in reverse *)
  Fixpoint scan (fuel : nat) (cur sub : str) (els : list tel) : result (list tel) :=
    match fuel with
    | O => Err EFuel "scan"
    | S f =>
        match cur with
        | [] => OK (rev (flush sub els))
        | c :: rest =>
            match rest with
            | c2 :: rest2 =>
                if is_double c c2 then scan f rest2 [] (TAtom [c; c2] :: flush sub els) else scan1 f c rest sub els
            | [] => scan1 f c rest sub els
            end
        end
    end
  with scan1 (fuel : nat) (c : ascii) (rest sub : str) (els : list tel) : result (list tel) :=
    match fuel with
    | O => Err EFuel "scan"
    | S f =>
        if in_set single_letters c then scan f rest [] (TAtom [c] :: flush sub els)
        else if Ascii.eqb c (ch "[") then
          let cur := c :: rest in
          let k := find (lit "]") cur in
          if k <? 0 then Err ERuntime "opening '[' but no closing ']'" else
          let tok := slice cur None (Some (k + 1)) in
          let cur' := slice cur (Some (k + 1)) None in
          if has_descr_char tok then scan f cur' (sub ++ tok) els
          else if valid_atom tok then scan f cur' [] (TAtom tok :: flush sub els)
          else Err ERuntime "invalid atom"
        else scan f rest (sub ++ [c]) els
    end.

  (* _push_pop_atom_branch: characters in order; pop of an empty list is Python's IndexError *)
  Fixpoint pushpop (s : str) (st : list Z) : result (list Z) :=
    match s with
    | [] => OK st
    | c :: s' =>
        if Ascii.eqb c (ch "(") then
          match st with top :: _ => pushpop s' (top :: st) | [] => Err EIndex "atom_to_bond[-1]" end
        else if Ascii.eqb c (ch ")") then
          match st with _ :: st' => pushpop s' st' | [] => Err EIndex "pop from empty list" end
        else pushpop s' st
    end.

  Definition cut_at (stop : str) (s : str) : str := if contains stop s then slice s None (Some (find stop s)) else s.

  Record pstate := { p_done : list tel (* reversed *); p_natoms : Z; p_stack : list Z (* top first *); p_bds : list descr (* reversed *) }.

  (* the second pass, token.py:121-195 *)
  Fixpoint bind (fuel : nat) (off : Z) (todo : list tel) (s : pstate) : result pstate :=
    match fuel with
    | O => Err EFuel "bind"
    | S f =>
        match todo with
        | [] => OK s
        | TAtom a :: rest =>
            match p_stack s with
            | [] => Err EIndex "atom_to_bond[-1]"
            | _ :: st' =>
                bind f off rest {| p_done := TAtom a :: p_done s; p_natoms := p_natoms s + 1; p_stack := p_natoms s :: st'; p_bds := p_bds s |}
            end
        | TBond d :: rest => bind f off rest {| p_done := TBond d :: p_done s; p_natoms := p_natoms s; p_stack := p_stack s; p_bds := p_bds s |}
        | TStr el :: rest =>
            if has_descr_char el then
              if find (lit "[") el <? 0 then Err ERuntime "Malformed token found '['" else
              if find (lit "]") el <=? 0 then Err ERuntime "Malformed token ']' found" else
              let A := slice el None (Some (find (lit "[") el)) in
              let bt := slice el (Some (find (lit "[") el)) (Some (find (lit "]") el + 1)) in
              let B := slice el (Some (find (lit "]") el + 1)) None in
              do st <- pushpop A (p_stack s);
              if contains (lit ".") A then Err ERuntime "bond descriptors with a . before them" else
              match st with
              | [] => Err EIndex "atom_to_bond[-1]"
              | top :: _ =>
                  let atom := if top <? 0 then 0 else top in
                  let pos := List.length (p_done s) in
                  let last := (List.length (p_done s) + List.length todo - 1)%nat in
                  if negb (Nat.eqb pos 0) && negb (Nat.eqb pos last) && negb (contains (lit ")") B) && negb (contains (lit ".") B)
                  then Err ERuntime "bond descriptors bond more than one atom" else
                  let pre := if contains (lit "(") A then slice A (Some (find (lit "(") A + 1)) None else A in
                  let pre := if Nat.eqb pos 0 then pre ++ cut_at (lit "[") (cut_at (lit ")") B) else pre in
                  do bd <- parse_descr bt (Z.of_nat (List.length (p_bds s)) + off) pre (Some atom);
                  let done := TBond bd :: (match A with [] => p_done s | _ => TStr A :: p_done s end) in
                  bind f off (match B with [] => rest | _ => TStr B :: rest end)
                       {| p_done := done; p_natoms := p_natoms s; p_stack := st; p_bds := bd :: p_bds s |}
              end
            else
              do st <- pushpop el (p_stack s);
              bind f off rest {| p_done := TStr el :: p_done s; p_natoms := p_natoms s; p_stack := st; p_bds := p_bds s |}
        end
    end.

  (* the measure the second pass decreases: it is given one unit of fuel more than this *)
  Definition mu_el (e : tel) : nat := match e with TStr s => S (2 * List.length s) | _ => 1%nat end.
  Definition mu (l : list tel) : nat := fold_right (fun e n => (mu_el e + n)%nat) 0%nat l.

  Definition atoms_of (els : list tel) : list str :=
    flat_map (fun e => match e with TAtom a => [a] | _ => [] end) els.

  (* SmilesToken.__init__ *)
  Definition parse_token (text : str) (off : Z) : result token :=
    if off <? 0 then Err ERuntime "bond_id_offset is not positive" else
    let raw := strip text in
    if negb (count_char (ch "(") text =? count_char (ch ")") text) then Err ERuntime "unbalanced branches" else
    do els <- scan (S (S (2 * List.length raw))) raw [] [];
    do s <- bind (S (mu els)) off els {| p_done := []; p_natoms := 0; p_stack := [-1]; p_bds := [] |};
    OK {| k_elements := rev (p_done s); k_atoms := atoms_of (rev (p_done s)); k_bds := rev (p_bds s) |}.
End Token.

Section PrintToken.
  Variable fprint : num -> str.

  (* generate_string (token.py:201-208) *)
  Definition print_token (ext : bool) (t : token) : str :=
    strip (List.concat (map (fun e => match e with TStr s => s | TAtom a => a | TBond d => print_descr fprint ext d end) (k_elements t))).
End PrintToken.

(* generate_smiles_fragment (token.py:210-231) *)
Definition fragment_string (t : token) : result str :=
  if existsb (fun e => match e with TStr [] | TAtom [] => true | _ => false end) (k_elements t) then Err ERuntime "expected as non-empty string" else
  let s := List.concat (map (fun e => match e with TStr s => s | TAtom a => a | TBond _ => lit "." end) (k_elements t)) in
  let s := replace (lit "(.)") [] s in
  let s := replace (lit ".)") (lit ")") s in
  OK (strip_chars (lit ".") s).

Definition token_generable (t : token) : bool := forallb generable_descr (k_bds t).
