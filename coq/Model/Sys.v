(* Mixture bookkeeping: mixture.py:16-84 (Mixture, linked setters) and system.py:15-84
   (_estimate_system_molecular_weight), over exact rationals.  Python truthiness of None / 0.0 is
   written out.  Executable model, no proofs. *)
From Coq Require Import List ZArith QArith Qabs Bool String.
From GBS Require Import Model.PyStr Model.Num Model.Bond.
Import ListNotations.
Open Scope Q_scope.

Record mix := { x_abs : option Q; x_rel : option Q; x_sys : option Q }.
Definition comp := option mix.                 (* None: Molecule.mixture is None *)

Definition Qlt_bool (a b : Q) : bool := negb (Qle_bool b a).
Definition truthy (q : Q) : bool := negb (Qeq_bool q 0).
Definition otruthy (o : option Q) : bool := match o with Some q => truthy q | None => false end.

(* Mixture.system_mass setter (mixture.py:71-84) *)
Definition set_sys (m : mix) (mass : Q) : result mix :=
  if Qlt_bool mass 0 then Err ERuntime "negative system mass" else
  match x_rel m with
  | Some r => OK {| x_abs := Some (r / 100 * mass); x_rel := Some r; x_sys := Some mass |}
  | None =>
      match x_abs m with
      | Some a => if Qeq_bool mass 0 then Err EZeroDiv "100*abs/0"
                  else OK {| x_abs := Some a; x_rel := Some (100 * a / mass); x_sys := Some mass |}
      | None => OK {| x_abs := None; x_rel := None; x_sys := Some mass |}
      end
  end.

(* Mixture.relative_mass setter (mixture.py:57-65) *)
Definition set_rel (m : mix) (f : Q) : result mix :=
  if Qlt_bool f 0 || Qlt_bool 100 f then Err ERuntime "invalid fraction" else
  let m' := {| x_abs := x_abs m; x_rel := Some f; x_sys := x_sys m |} in
  match x_abs m with
  | Some a => if truthy a then (if Qeq_bool f 0 then Err EZeroDiv "abs/(0/100)" else set_sys m' (a / (f / 100))) else OK m'
  | None => OK m'
  end.

Definition sumq (l : list Q) : Q := fold_left Qplus l 0.

Definition abs_known (c : comp) : option Q := match c with Some m => if otruthy (x_abs m) then x_abs m else None | None => None end.
Definition rel_known (c : comp) : option Q := match c with Some m => x_rel m | None => None end.
Fixpoint somes {A} (l : list (option A)) : list A :=
  match l with [] => [] | Some x :: r => x :: somes r | None :: r => somes r end.

(* system.py:34-47: the one missing percentage *)
Fixpoint fill_missing (cs : list comp) (w : Q) : result (list comp) :=
  match cs with
  | [] => OK []
  | c :: r =>
      do c' <- (match c with
                | None => if Qlt_bool w 0 || Qlt_bool 100 w then Err ERuntime "Mixture percent"
                          else OK {| x_abs := None; x_rel := Some w; x_sys := None |}
                | Some m => match x_rel m with None => set_rel m w | Some _ => OK m end
                end);
      do r' <- fill_missing r w;
      OK (Some c' :: r')
  end.

Fixpoint consistent (l : list Q) : bool :=
  match l with
  | a :: ((b :: _) as r) => if Qlt_bool (1 # 1000000) (Qabs (a - b)) then false else consistent r
  | _ => true
  end.

Fixpoint set_all_sys (cs : list comp) (s : Q) (done : list comp) : result (bool * list comp) :=
  match cs with
  | [] => OK (true, rev done)
  | None :: r => OK (false, rev done ++ cs)      (* return False in the middle of the loop *)
  | Some m :: r => do m' <- set_sys m s; set_all_sys r s (Some m' :: done)
  end.

(* _estimate_system_molecular_weight (system.py:15-84): (generable?, the components as left behind) *)
Definition estimate (cs : list comp) (smw : option Q) : result (bool * list comp) :=
  let est0 := match smw with Some s => if truthy s then [s] else [] | None => [] end in
  let masses := somes (map abs_known cs) in
  let fracs := somes (map rel_known cs) in
  let n := List.length cs in
  do st <- (if Nat.eqb (S (List.length fracs)) n then
              let w := 100 - sumq fracs in
              if Qlt_bool w 0 || Qlt_bool 100 w then Err ERuntime "invalid extra weight"
              else do cs' <- fill_missing cs w; OK (cs', sumq fracs + w, S (List.length fracs))
            else OK (cs, sumq fracs, List.length fracs));
  let '(cs1, totf, nf) := st in
  if Nat.eqb nf n && Qlt_bool (1 # 1000000) (Qabs (totf - 100)) then Err ERuntime "total fraction != 100" else
  let est1 := est0 ++ somes (map (fun c => match c with Some m => if otruthy (x_sys m) then x_sys m else None | None => None end) cs1) in
  let est2 := if Nat.eqb (List.length masses) n then est1 ++ [sumq masses] else est1 in
  if negb (consistent est2) then Err ERuntime "inconsistent mol weights" else
  match est2 with
  | [] => OK (false, cs1)
  | s :: _ => set_all_sys cs1 s []
  end.
