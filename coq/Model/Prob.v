(* Ensemble probability of linear directed chains: the closed form of what mol_prob.get_ensemble_prob
   returns on this class (which masses it accumulates into which element and the
   cdf(value) - cdf(previous) rule, mol_prob.py:38-66, 103, 112, 209-220, 337, 346), and the
   probability with which the generator (Model/Gen.v, stop rule of C07) produces the same molecule.
   The cumulative distribution function of a block's law is an abstract function F (scipy: oracle).
   Executable over Q, no proofs. *)
From Coq Require Import List ZArith QArith Bool.
Import ListNotations.
Open Scope Q_scope.

Definition nQ (n : nat) : Q := inject_Z (Z.of_nat n).

(* one block of n >= 1 units of mass u; m0 = mass the search has already put into this element when the
   first unit arrives (0 after a prefix token; the mass of the starting end group when the molecule
   starts with an end group of this object) *)
Definition code_interval (m0 u : Q) (n : nat) : Q * Q := (m0 + nQ n * u, m0 + nQ (n - 1) * u).      (* (value, previous) *)
Definition code_block (F : Q -> Q) (m0 u : Q) (n : nat) : Q :=
  let '(v, p) := code_interval m0 u n in F v - F p.

(* generator: n units iff (n-1) u <= T < n u, and T < u for n = 1 (negative targets included);
   F x = P(T <= x), and the laws have no atom at the cumulative masses (stated where used) *)
Definition gen_block (F : Q -> Q) (u : Q) (n : nat) : Q :=
  match n with
  | O => 0
  | S O => F u
  | _ => F (nQ n * u) - F (nQ (n - 1) * u)
  end.

Fixpoint prodQ (l : list Q) : Q := match l with [] => 1 | x :: r => x * prodQ r end.

(* a chain molecule: start probability, and per block (F, m0, u, n) *)
Record block := { b_F : Q -> Q; b_m0 : Q; b_u : Q; b_n : nat }.
Definition code_prob (pstart : Q) (bs : list block) : Q := pstart * prodQ (map (fun b => code_block (b_F b) (b_m0 b) (b_u b) (b_n b)) bs).
Definition gen_prob (pstart : Q) (bs : list block) : Q := pstart * prodQ (map (fun b => gen_block (b_F b) (b_u b) (b_n b)) bs).

Fixpoint sum_n (f : nat -> Q) (n : nat) : Q := match n with O => 0 | S m => sum_n f m + f (S m) end.
