(* Molecular-weight distributions: what is logic in distribution.py -- the parameter plumbing of the
   six constructors (which scipy law, with which arguments), the Flory-Schulz mass function, the
   interval rule of prob_mw, and the stop index that turns a drawn target into a block size
   (stochastic.py:234-266 read as a function of the cumulative unit masses).  Executable, no proofs. *)
From Coq Require Import List ZArith QArith Bool.
From GBS Require Import Model.DistFam.
Import ListNotations.
Open Scope Q_scope.

(* the law handed to scipy, with its arguments *)
Inductive law_spec :=
| LNorm (loc scale : Q)                (* stats.norm(loc, scale) *)
| LUnif (loc scale : Q)                (* stats.uniform(loc, scale): support [loc, loc+scale] *)
| LPoisson (mu : Q)                    (* stats.poisson(mu) *)
| LFlorySchulz (a : Q)                 (* custom rv_discrete, pmf a^2 k (1-a)^(k-1) *)
| LSchulzZimm (z Mn : Q)               (* custom rv_discrete, z = Mn/(Mw-Mn) *)
| LLogNormal (M D : Q)                 (* custom rv_continuous *)
| LBad.                                (* wrong number of parameters / division by zero *)

Definition trunc (q : Q) : Q := inject_Z (Z.quot (Qnum q) (Zpos (Qden q))).   (* Python int() *)

(* constructors of distribution.py: documented parameter order *)
Definition plumb (f : family) (args : list Q) : law_spec :=
  match f, args with
  | FGauss, [mu; sigma] => LNorm mu sigma
  | FUniform, [lo; hi] => LUnif (trunc lo) (trunc hi - trunc lo)
  | FSchulzZimm, [Mw; Mn] => if Qeq_bool (Mw - Mn) 0 then LBad else LSchulzZimm (Mn / (Mw - Mn)) Mn
  | FLogNormal, [M; D] => LLogNormal M D
  | FPoisson, [N] => LPoisson N
  | FFlorySchulz, [a] => LFlorySchulz a
  | _, _ => LBad
  end.

(* Flory-Schulz mass function and its partial sums (distribution.py:100) *)
Definition fs_pmf (a : Q) (k : nat) : Q := a * a * inject_Z (Z.of_nat k) * (1 - a) ^ (Z.of_nat k - 1).
Fixpoint sum_to (f : nat -> Q) (n : nat) : Q := match n with O => 0 | S m => sum_to f m + f (S m) end.
Definition fs_cdf (a : Q) (n : nat) : Q := sum_to (fs_pmf a) n.

(* block size: number of units = position of the first cumulative mass that exceeds the target *)
Fixpoint stop_index_from (k : nat) (ms : list Q) (T : Q) : option nat :=
  match ms with
  | [] => None
  | m :: r => if Qle_bool m T then stop_index_from (S k) r T else Some k
  end.
Definition stop_index (ms : list Q) (T : Q) : option nat := stop_index_from 1 ms T.
