(* The six molecular-weight distribution families of distribution.py *)
Inductive family := FFlorySchulz | FGauss | FUniform | FSchulzZimm | FLogNormal | FPoisson.
Definition family_eqb (a b : family) : bool :=
  match a, b with
  | FFlorySchulz, FFlorySchulz | FGauss, FGauss | FUniform, FUniform
  | FSchulzZimm, FSchulzZimm | FLogNormal, FLogNormal | FPoisson, FPoisson => true
  | _, _ => false
  end.
