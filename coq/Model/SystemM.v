(* System.__init__ / generable (system.py:92-140): the splitting loop with the molecule constructor called on every piece as it is cut
   (so that the first failure, of whichever kind, is the one reported), then the mixture bookkeeping of Model/Sys.v.
   Non-finite mixture values (inf, nan) are outside Model/Sys.v: reported as EOther.  Executable, no proofs. *)
From Coq Require Import List ZArith QArith Ascii String Bool.
From GBS Require Import Model.PyStr Model.Num Model.Bond Model.Token Model.DistFam Src.SrcDist Model.Stoch Model.Mol Model.Sys.
Import ListNotations.
Open Scope Z_scope.

Definition fin_of (o : option num) : result (option Q) :=
  match o with None => OK None | Some (Fin q) => OK (Some q) | Some _ => Err EOther "non-finite mixture value" end.
Definition comp_of_mix (m : option pmix) : result comp :=
  match m with
  | None => OK None
  | Some x => do a <- fin_of (mx_abs x); do r <- fin_of (mx_rel x); OK (Some {| x_abs := a; x_rel := r; x_sys := None |})
  end.
Fixpoint map_result {A B} (f : A -> result B) (l : list A) : result (list B) :=
  match l with [] => OK [] | a :: r => do b <- f a; do bs <- map_result f r; OK (b :: bs) end.

Section SystemM.
  Variable valid_atom : str -> bool.
  Variable fprint : num -> str.

  Fixpoint system_loop (fuel : nat) (text : str) (acc : list pmolecule) : result (list pmolecule * str) :=
    match fuel with
    | O => Err EFuel "system_loop"
    | S f =>
        if find (lit ".|") text <? 0 then OK (rev acc, text) else
        let end_pos := find_at (lit "|") text (find (lit ".|") text + 2) + 1 in
        if end_pos <=? 0 then Err ERuntime "opening '.|' but no closing '|'" else
        do m <- parse_molecule valid_atom fprint (slice text None (Some end_pos));
        system_loop f (strip (slice text (Some end_pos) None)) (m :: acc)
    end.

  Record psystem := { sy_mols : list pmolecule; sy_comps : list comp; sy_generable : bool }.

  Definition parse_system (raw : str) (smw : option Q) : result psystem :=
    let text := strip raw in
    do r <- system_loop (S (List.length text)) text [];
    let '(ms, rest) := r in
    do ms' <- (match rest with [] => OK ms | _ => do m <- parse_molecule valid_atom fprint rest; OK (ms ++ [m])%list end);
    do cs <- map_result comp_of_mix (map ml_mix ms');
    do e <- estimate cs smw;
    OK {| sy_mols := ms'; sy_comps := snd e; sy_generable := fst e && forallb molecule_generable ms' |}.
End SystemM.
