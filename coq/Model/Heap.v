(* The copy discipline of generation over a small store model (C10).  Bond-descriptor objects are cells of a
   store; a parsed token OWNS the cells of its descriptors (allocated when the string is parsed).  Generation
   performs exactly these store operations:
     MolGen(token)            deep copy of the token's descriptors        (mol_gen.py:38)
     attach_other(.., other)  deep copy of other's descriptors            (mol_gen.py:111), two of the copies dropped
     get_start with prefix    WRITE of weight / transitions on prefix.bond_descriptors[0]   (stochastic.py:196-198)
   Executable, no proofs. *)
From Coq Require Import List ZArith Bool Arith.
From GBS Require Import Model.PyStr Model.Num Model.Bond.
Import ListNotations.

Definition addr := nat.
Definition store := list descr.

Definition alloc_copy (st : store) (a : addr) : store * addr :=
  match nth_error st a with
  | Some d => (st ++ [d], List.length st)
  | None => (st, a)                                   (* dangling address: no effect *)
  end.

Fixpoint copy_all (st : store) (l : list addr) : store * list addr :=
  match l with
  | [] => (st, [])
  | a :: r => let '(st1, a') := alloc_copy st a in let '(st2, r') := copy_all st1 r in (st2, a' :: r')
  end.

Fixpoint write_at (st : store) (a : addr) (w : num) (t : option (list num)) : store :=
  match st, a with
  | [], _ => []
  | d :: r, O => {| d_sym := d_sym d; d_id := d_id d; d_weight := w; d_trans := t; d_order := d_order d; d_pre := d_pre d;
                    d_atom := d_atom d; d_num := d_num d |} :: r
  | d :: r, S a' => d :: write_at r a' w t
  end.

(* a token = the addresses of its descriptor cells *)
Definition htoken := list addr.
(* a growing molecule = the addresses of its open descriptors *)
Definition hmol := list addr.

Inductive hop :=
| HNew (tok : htoken)                                   (* MolGen(token) replaces the current molecule (start of a generation) *)
| HAttach (i : nat) (tok : htoken) (j : nat)            (* attach_other(i, MolGen(token), j) *)
| HSetWt (w : num) (t : option (list num)).             (* the write of get_start on the molecule's first open descriptor *)

Fixpoint drop_nth {A} (n : nat) (l : list A) : list A :=
  match n, l with O, _ :: r => r | S n', x :: r => x :: drop_nth n' r | _, [] => [] end.

Definition hstep (s : store * hmol) (o : hop) : store * hmol :=
  let '(st, m) := s in
  match o with
  | HNew tok => copy_all st tok
  | HAttach i tok j =>
      let '(st1, other) := copy_all st tok in          (* MolGen(token): first deep copy *)
      let '(st2, other2) := copy_all st1 other in      (* attach_other: second deep copy *)
      (st2, drop_nth i m ++ drop_nth j other2)
  | HSetWt w t => match m with a :: _ => (write_at st a w t, m) | [] => (st, m) end
  end.

Definition hrun (s : store * hmol) (ops : list hop) : store * hmol := fold_left hstep ops s.
