(* Python string primitives over [str := list ascii]; ASCII only (stated limit).
   Executable model, no proofs here. *)
From Coq Require Import List ZArith Ascii String Bool.
Import ListNotations.

Definition str := list ascii.
Definition lit (s : string) : str := list_ascii_of_string s.
Definition ch (s : string) : ascii :=
  match s with String c _ => c | EmptyString => Ascii.zero end.

Fixpoint str_eqb (a b : str) : bool :=
  match a, b with
  | [], [] => true
  | x :: a', y :: b' => Ascii.eqb x y && str_eqb a' b'
  | _, _ => false
  end.

Fixpoint is_prefix (p s : str) : bool :=
  match p, s with
  | [], _ => true
  | x :: p', y :: s' => Ascii.eqb x y && is_prefix p' s'
  | _ :: _, [] => false
  end.

Definition len (s : str) : Z := Z.of_nat (List.length s).

(* Python s.find(p) / s.rfind(p): -1 when absent *)
Fixpoint find_from (p s : str) (i : Z) : Z :=
  if is_prefix p s then i
  else match s with [] => (-1)%Z | _ :: s' => find_from p s' (i + 1)%Z end.
Definition find (p s : str) : Z := find_from p s 0%Z.
Definition contains (p s : str) : bool := Z.geb (find p s) 0.

Fixpoint rfind_from (p s : str) (i best : Z) : Z :=
  let best' := if is_prefix p s then i else best in
  match s with [] => best' | _ :: s' => rfind_from p s' (i + 1)%Z best' end.
Definition rfind (p s : str) : Z := rfind_from p s 0%Z (-1)%Z.

(* Python slice bounds *)
Definition norm_idx (n i : Z) : Z :=
  let i' := if (i <? 0)%Z then (i + n)%Z else i in Z.max 0 (Z.min n i').

Definition slice (s : str) (a b : option Z) : str :=
  let n := len s in
  let a' := match a with None => 0%Z | Some a => norm_idx n a end in
  let b' := match b with None => n | Some b => norm_idx n b end in
  firstn (Z.to_nat (b' - a')) (skipn (Z.to_nat a') s).

(* Python s.find(p, start): start is clamped like a slice bound *)
Definition find_at (p s : str) (start : Z) : Z :=
  let st := norm_idx (len s) start in
  find_from p (skipn (Z.to_nat st) s) st.

(* Python s[i]; None where Python raises IndexError *)
Definition index (s : str) (i : Z) : option ascii :=
  let n := len s in
  let i' := if (i <? 0)%Z then (i + n)%Z else i in
  if ((i' <? 0) || (n <=? i'))%Z then None else nth_error s (Z.to_nat i').

Fixpoint count_char (c : ascii) (s : str) : Z :=
  match s with
  | [] => 0%Z
  | x :: s' => ((if Ascii.eqb x c then 1 else 0) + count_char c s')%Z
  end.

Definition is_ws (c : ascii) : bool :=
  let n := nat_of_ascii c in
  (Nat.eqb n 32) || ((Nat.leb 9 n) && (Nat.leb n 13)) || ((Nat.leb 28 n) && (Nat.leb n 31)).

Fixpoint lstrip_by (f : ascii -> bool) (s : str) : str :=
  match s with [] => [] | c :: s' => if f c then lstrip_by f s' else s end.
Definition rstrip_by f (s : str) : str := rev (lstrip_by f (rev s)).
Definition strip_by f (s : str) : str := rstrip_by f (lstrip_by f s).
Definition strip := strip_by is_ws.
Definition in_set (set : str) (c : ascii) : bool := existsb (Ascii.eqb c) set.
Definition strip_chars (set : str) := strip_by (in_set set).

(* s.split() on whitespace *)
Fixpoint split_ws_aux (s cur : str) : list str :=
  match s with
  | [] => match cur with [] => [] | _ => [rev cur] end
  | c :: s' =>
      if is_ws c then
        (match cur with [] => split_ws_aux s' [] | _ => rev cur :: split_ws_aux s' [] end)
      else split_ws_aux s' (c :: cur)
  end.
Definition split_ws (s : str) := split_ws_aux s [].

(* s.split(c) on a one-character separator: always at least one piece *)
Fixpoint split_char_aux (c : ascii) (s cur : str) : list str :=
  match s with
  | [] => [rev cur]
  | x :: s' => if Ascii.eqb x c then rev cur :: split_char_aux c s' []
               else split_char_aux c s' (x :: cur)
  end.
Definition split_char (c : ascii) (s : str) := split_char_aux c s [].

(* s.replace(p, r) for non-empty p; fuel = length of s + 1 *)
Fixpoint replace_aux (fuel : nat) (p r s : str) : str :=
  match fuel with
  | O => s
  | S fuel' =>
      match s with
      | [] => []
      | x :: s' =>
          if is_prefix p s then r ++ replace_aux fuel' p r (skipn (List.length p) s)
          else x :: replace_aux fuel' p r s'
      end
  end.
Definition replace (p r s : str) : str :=
  match p with [] => s | _ => replace_aux (S (List.length s)) p r s end.

Definition startswith (p s : str) : bool := is_prefix p s.

Definition is_digit (c : ascii) : bool :=
  let n := nat_of_ascii c in (Nat.leb 48 n && Nat.leb n 57).
Definition digit_val (c : ascii) : Z := (Z.of_nat (nat_of_ascii c) - 48)%Z.

(* decimal rendering of a non-negative integer (used by printers) *)
Fixpoint pos_digits_aux (fuel : nat) (n : Z) (acc : str) : str :=
  match fuel with
  | O => acc
  | S f =>
      let d := ascii_of_nat (Z.to_nat (n mod 10) + 48) in
      if (n <? 10)%Z then d :: acc else pos_digits_aux f (n / 10)%Z (d :: acc)
  end.
Definition z_to_str (n : Z) : str :=
  if (n <? 0)%Z then ch "-" :: pos_digits_aux (S (Z.to_nat (Z.log2 (- n)))) (- n)%Z []
  else pos_digits_aux (S (Z.to_nat (Z.log2 n))) n [].
