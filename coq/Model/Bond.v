(* Bond descriptors: bond.py, statement by statement.  Executable model, no proofs. *)
From Coq Require Import List ZArith QArith Ascii String Bool.
From GBS Require Import Model.PyStr Model.Num.
Import ListNotations.
Open Scope Z_scope.

(* OArom is RDKit's BondType.ONEANDAHALF, which is what bond.py stores for ':' *)
Inductive order := OUnspec | OSingle | ODouble | OTriple | OQuad | OArom.

Inductive err := ERuntime | EValue | EIndex | EType | EZeroDiv | EAttr | EOther | EFuel.
Inductive result (A : Type) := OK (a : A) | Err (e : err) (msg : string).
Arguments OK {A}. Arguments Err {A}.

Definition bind {A B} (r : result A) (f : A -> result B) : result B :=
  match r with OK a => f a | Err e m => Err e m end.
Notation "'do' x <- r ; k" := (bind r (fun x => k)) (at level 200, x pattern, r at level 100, k at level 200).

Record descr := {
  d_sym : str;                 (* "" for the empty terminal, otherwise one of $ < > *)
  d_id : option Z;             (* None: Python's "" *)
  d_weight : num;
  d_trans : option (list num);
  d_order : order;
  d_pre : str;                 (* preceding_characters as stored *)
  d_atom : option Z;           (* atom_bonding_to (None / unset) *)
  d_num : Z                    (* descriptor_num *)
}.

Definition order_eqb (a b : order) : bool :=
  match a, b with
  | OUnspec, OUnspec | OSingle, OSingle | ODouble, ODouble
  | OTriple, OTriple | OQuad, OQuad | OArom, OArom => true
  | _, _ => false
  end.
Definition id_eqb (a b : option Z) : bool :=
  match a, b with None, None => true | Some x, Some y => (x =? y) | _, _ => false end.

(* bond.py:101-110 *)
Definition order_of_pre (pre : str) : order :=
  let bt := OSingle in
  let bt := if contains (lit "=") pre then ODouble else bt in
  let bt := if contains (lit "#") pre then OTriple else bt in
  let bt := if contains (lit "$") pre then OQuad else bt in
  let bt := if contains (lit ":") pre then OArom else bt in
  bt.

Fixpoint map_opt {A B} (f : A -> option B) (l : list A) : option (list B) :=
  match l with
  | [] => Some []
  | x :: l' => match f x, map_opt f l' with Some y, Some r => Some (y :: r) | _, _ => None end
  end.

Definition num_add (a b : num) : num :=
  match a, b with
  | Fin x, Fin y => Fin (Qred (x + y))
  | NaN, _ | _, NaN => NaN
  | PInf, NInf | NInf, PInf => NaN
  | PInf, _ | _, PInf => PInf
  | NInf, _ | _, NInf => NInf
  end.
Definition num_sum (l : list num) : num := fold_left num_add l (Fin 0).

(* BondDescriptor.__init__ (bond.py:26-118) *)
Definition parse_descr (raw0 : str) (dnum : Z) (pre0 : str) (atom : option Z) : result descr :=
  if str_eqb raw0 (lit "[]") then
    OK {| d_sym := []; d_id := None; d_weight := Fin 1; d_trans := None; d_order := OUnspec;
          d_pre := pre0; d_atom := None; d_num := dnum |}
  else
  let raw := if (len pre0 =? 0) then slice raw0 (Some (find (lit "[") raw0)) None else raw0 in
  match index raw 0, index raw (-1) with
  | Some c0, Some cl =>
    if negb (Ascii.eqb c0 (ch "[") && Ascii.eqb cl (ch "]")) then Err ERuntime "brackets" else
    match index raw 1 with
    | None => Err EIndex "raw[1]"
    | Some c1 =>
      if negb (in_set (lit "$<>") c1) then Err ERuntime "symbol" else
      let id_end := if contains (lit "|") raw then find (lit "|") raw else (-1) in
      let id_str := slice raw (Some 2) (Some id_end) in
      if contains (lit "[") id_str || contains (lit "]") id_str then Err ERuntime "nested" else
      do id <- (if (len id_str >? 0) then
                  match py_int id_str with Some z => OK (Some z) | None => Err EValue "id" end
                else OK None);
      do wt <- (if contains (lit "|") raw then
                  if negb (count_char (ch "|") raw =? 2) then Err ERuntime "bars" else
                  if negb (str_eqb (slice raw (Some (rfind (lit "|") raw + 1)) None) (lit "]")) then Err ERuntime "text after the closing '|'" else
                  let ws := slice raw (Some (find (lit "|") raw)) (Some (rfind (lit "|") raw)) in
                  match map_opt py_float (split_ws (strip_chars (lit "|") ws)) with
                  | None => Err EValue "weight"
                  | Some [] => Err ERuntime "empty weight specification"
                  | Some [w] => OK (w, None)
                  | Some l => OK (num_sum l, Some l)
                  end
                else OK (Fin 1, None));
      if contains (lit "@") pre0 || contains (lit "/") pre0 || contains (lit "\") pre0
      then Err ERuntime "stereo" else
      (* note: preceding_characters is reset to the constructor argument at bond.py:101 *)
      OK {| d_sym := [c1]; d_id := id; d_weight := fst wt; d_trans := snd wt;
            d_order := order_of_pre pre0; d_pre := pre0; d_atom := atom; d_num := dnum |}
    end
  | _, _ => Err EIndex "raw[0]"
  end.

(* hand-written model of is_compatible (bond.py:120-133); the translator regenerates
   Src.is_compatible from the source and Proofs/BondP.v proves the two equal *)
Definition compatible (a b : descr) : bool :=
  if negb (order_eqb (d_order a) (d_order b)) then false else
  if negb (id_eqb (d_id a) (d_id b)) then false else
  if str_eqb (d_sym a) [] || str_eqb (d_sym b) [] then false else
  if str_eqb (d_sym a) (lit "$") && str_eqb (d_sym b) (lit "$") then true else
  if str_eqb (d_sym a) (lit "<") && str_eqb (d_sym b) (lit ">") then true else
  if str_eqb (d_sym a) (lit ">") && str_eqb (d_sym b) (lit "<") then true else
  false.

Definition generable_descr (d : descr) : bool := num_ge0 (d_weight d).

Definition id_str (i : option Z) : str := match i with None => [] | Some z => z_to_str z end.

Section Print.
  Variable fprint : num -> str.     (* Python repr of a float: oracle *)

  (* BondDescriptor.generate_string (bond.py:135-148) *)
  Definition print_descr (ext : bool) (d : descr) : str :=
    let s := lit "[" ++ d_sym d ++ id_str (d_id d) in
    let s :=
      if ext && (match d_trans d with Some _ => true | None => negb (num_eqb (d_weight d) (Fin 1)) end)
      then
        match d_trans d with
        | None => s ++ lit "|" ++ fprint (d_weight d) ++ lit "|"
        | Some l => (slice (s ++ lit "|" ++ List.concat (map (fun t => fprint t ++ lit " ") l)) None (Some (-1))) ++ lit "|"
        end
      else s in
    strip (s ++ lit "]").
End Print.

(* _create_compatible_bond_text (bond.py:11-18); str(bond) contains '<' / '>' iff the symbol is,
   because ids and weights are numeric text *)
Definition compatible_bond_text (b : descr) : str :=
  let sym := if str_eqb (d_sym b) (lit ">") then lit ">"
             else if str_eqb (d_sym b) (lit "<") then lit "<" else lit "$" in
  d_pre b ++ lit "[" ++ sym ++ id_str (d_id b) ++ lit "]".
