(* The stochastic generator as a state machine driven by a pick stream and a list of drawn targets.
   core.py:94-122 (choose_compatible_weight), mol_gen.py:26-184 (MolGen, attach_other),
   token.py:244-255, stochastic.py:164-308, molecule.py:147-152.
   Every rng.choice call consumes one pick = position in the candidate list; every draw_mw call
   consumes one target.  Executable model, no proofs here. *)
From Coq Require Import List ZArith QArith Ascii String Bool.
From GBS Require Import Model.PyStr Model.Num Model.Bond Model.Select.
Import ListNotations.

(* ---- abstract input: what generation reads from a parsed molecule ---- *)
Inductive rkind := KTok | KRep | KEnd.
Record rref := { r_elem : nat; r_kind : rkind; r_idx : nat }.

Record gtoken := {
  t_natoms : Z;            (* atoms of the RDKit fragment (oracle) *)
  t_mass : Q;              (* HeavyAtomMolWt of the fragment (oracle) *)
  t_bds : list descr;      (* its bond descriptors, d_atom = local atom index *)
  t_ok : bool              (* MolGen(token) succeeds: generable, fragment is valid SMILES (oracle) *)
}.
Record gstoch := {
  s_left : descr; s_right : descr;
  s_rep : list gtoken; s_end : list gtoken;
  s_generable : bool       (* Stochastic.generable *)
}.
Inductive gelem := ETok (t : gtoken) | EStoch (s : gstoch).

(* ---- generator state: MolGen ---- *)
Record obd := { o_d : descr;     (* descriptor, d_atom = global atom index *)
                o_node : nat;    (* residue instance (node_idx) *)
                o_k : nat }.     (* position among the descriptors of its token *)
Record arec := { a_self : obd; a_other : obd; a_ref : rref }.   (* one attach_other call *)
Record molgen := {
  m_res : list (rref * gtoken);  (* residue instances in creation order, with the token each copies *)
  m_natoms : Z;
  m_log : list arec;       (* one record per bond / residue edge, in creation order *)
  m_open : list obd;       (* bond_descriptors *)
  m_mass : Q
}.
Definition atom_of (o : obd) : Z := match d_atom (o_d o) with Some a => a | None => (-1)%Z end.
Definition bond_of (r : arec) : Z * Z * order := (atom_of (a_self r), atom_of (a_other r), d_order (o_d (a_self r))).
Definition edge_of (r : arec) : nat * nat * order := (o_node (a_self r), o_node (a_other r), d_order (o_d (a_self r))).
Definition m_bonds (g : molgen) := map bond_of (m_log g).
Definition m_edges (g : molgen) := map edge_of (m_log g).

Fixpoint remove_nth {A} (n : nat) (l : list A) : list A :=
  match n, l with O, _ :: l' => l' | S n', x :: l' => x :: remove_nth n' l' | _, [] => [] end.

Definition shift_descr (d : descr) (n : Z) : descr :=
  {| d_sym := d_sym d; d_id := d_id d; d_weight := d_weight d; d_trans := d_trans d; d_order := d_order d;
     d_pre := d_pre d; d_atom := option_map (fun a => (a + n)%Z) (d_atom d); d_num := d_num d |}.

Fixpoint index_from {A} (k : nat) (l : list A) : list (nat * A) :=
  match l with [] => [] | x :: l' => (k, x) :: index_from (S k) l' end.

(* the descriptor instances a fresh copy of [tok] brings, placed at atom offset [off], residue [node] *)
Definition instances (tok : gtoken) (off : Z) (node : nat) : list obd :=
  map (fun kd => {| o_d := shift_descr (snd kd) off; o_node := node; o_k := fst kd |}) (index_from 0 (t_bds tok)).

(* MolGen(token) (mol_gen.py:26-79) *)
Definition new_mol (tok : gtoken) (ref : rref) : result molgen :=
  if negb (t_ok tok) then Err ERuntime "token not generable" else
  OK {| m_res := [(ref, tok)]; m_natoms := t_natoms tok; m_log := []; m_open := instances tok 0 0; m_mass := t_mass tok |}.

(* MolGen.attach_other (mol_gen.py:88-184) with other = MolGen(tok) *)
Definition attach (g : molgen) (i : nat) (tok : gtoken) (ref : rref) (j : nat) : result molgen :=
  if negb (t_ok tok) then Err ERuntime "token not generable" else
  let inst := instances tok (m_natoms g) (List.length (m_res g)) in
  match nth_error (m_open g) i, nth_error inst j with
  | Some a, Some b =>
      if negb (compatible (o_d b) (o_d a)) then Err ERuntime "incompatible" else
      OK {| m_res := m_res g ++ [(ref, tok)];
            m_natoms := (m_natoms g + t_natoms tok)%Z;
            m_log := m_log g ++ [{| a_self := a; a_other := b; a_ref := ref |}];
            m_open := remove_nth i (m_open g) ++ remove_nth j inst;
            m_mass := Qred (m_mass g + t_mass tok) |}
  | _, _ => Err ERuntime "invalid bond descriptor id"
  end.

(* ---- the run monad: picks, targets, trace ---- *)
Inductive event :=
| EvChoice (cands : list nat) (p : list Q) (pick : nat)
| EvDraw (T : Q).
Record rstate := { picks : list nat; targets : list Q; trace : list event (* newest first *) }.
Inductive gres (A : Type) :=
| Done (a : A) (st : rstate)
| GErr (e : err) (msg : string)
| NeedPicks (k : nat)     (* pick stream exhausted at a decision with k candidates *)
| NeedTarget
| BadPick                 (* pick out of range or on a zero-probability option *)
| OutOfFuel.
Arguments Done {A}. Arguments GErr {A}. Arguments NeedPicks {A}. Arguments NeedTarget {A}.
Arguments BadPick {A}. Arguments OutOfFuel {A}.
Definition run (A : Type) := rstate -> gres A.
Definition ret {A} (a : A) : run A := fun st => Done a st.
Definition fail {A} (e : err) (m : string) : run A := fun _ => GErr e m.
Definition rbind {A B} (m : run A) (k : A -> run B) : run B :=
  fun st => match m st with
            | Done a st' => k a st'
            | GErr e s => GErr e s | NeedPicks n => NeedPicks n | NeedTarget => NeedTarget
            | BadPick => BadPick | OutOfFuel => OutOfFuel
            end.
Notation "'rdo' x <- m ;; k" := (rbind m (fun x => k)) (at level 200, x pattern, m at level 100, k at level 200).
Definition lift {A} (r : result A) : run A := match r with OK a => ret a | Err e m => fail e m end.

(* one rng.choice(cands, p=p): consumes one pick *)
Definition pick (cands : list nat) (p : list Q) : run nat :=
  fun st => match picks st with
            | [] => NeedPicks (List.length cands)
            | k :: rest =>
                match nth_error cands k, nth_error p k with
                | Some c, Some pk =>
                    if Qle_bool pk 0 then BadPick
                    else Done c {| picks := rest; targets := targets st; trace := EvChoice cands p k :: trace st |}
                | _, _ => BadPick
                end
            end.

Definition draw : run Q :=
  fun st => match targets st with
            | [] => NeedTarget
            | T :: rest => Done T {| picks := picks st; targets := rest; trace := EvDraw T :: trace st |}
            end.

Definition qw (d : descr) : option Q := match d_weight d with Fin q => Some q | _ => None end.
Definition qtrans (d : descr) : option (option (list Q)) :=
  match d_trans d with
  | None => Some None
  | Some l => option_map Some (map_opt (fun x => match x with Fin q => Some q | _ => None end) l)
  end.

(* choose_compatible_weight (core.py:102-122) *)
Definition choose (bds : list descr) (bond : option descr) : run nat :=
  let idx := compat_idx bds bond in
  match map_opt (fun i => match nth_error bds i with Some d => qw d | None => None end) idx with
  | None => fail EValue "non-finite weight"
  | Some w =>
      match idx with
      | [] => fail EValue "no candidate"                       (* rng.choice([], p=[]) *)
      | _ =>
          if Qeq_bool (total (bump w)) 0 then fail EValue "weights sum to zero"
          else if existsb (fun x => negb (Qle_bool 0 x)) (law w) then fail EValue "negative probability"
          else pick idx (law w)
      end
  end.

Definition mkref (ei : nat) (k : rkind) (i : nat) : rref := {| r_elem := ei; r_kind := k; r_idx := i |}.

(* SmilesToken.generate (token.py:244-255) *)
Definition gen_token (tok : gtoken) (ei : nat) (prefix : option molgen) : run molgen :=
  if negb (t_ok tok) then fail ERuntime "token not generable" else
  match prefix with
  | None => lift (new_mol tok (mkref ei KTok 0))
  | Some g =>
      match m_open g with
      | [a] =>
          rdo j <- choose (t_bds tok) (Some (o_d a)) ;;
          lift (attach g 0 tok (mkref ei KTok 0) j)
      | _ => fail ERuntime "prefix must have exactly one open bond descriptor"
      end
  end.

(* flat lists of the repeat / end descriptors with (token index, position in token) *)
Definition flat_bds (toks : list gtoken) : list (nat * nat * descr) :=
  flat_map (fun it => map (fun kd => (fst it, fst kd, snd kd)) (index_from 0 (t_bds (snd it)))) (index_from 0 toks).
Definition repb (s : gstoch) := flat_bds (s_rep s).
Definition endb (s : gstoch) := flat_bds (s_end s).
Definition descrs_of (l : list (nat * nat * descr)) : list descr := map snd l.

Definition print_noext (d : descr) : str := strip (lit "[" ++ d_sym d ++ id_str (d_id d) ++ lit "]").
Definition is_empty_terminal (d : descr) : bool := str_eqb (d_sym d) [].   (* str(d) == "[]" for parsed d *)

Definition set_wt (o : obd) (w : num) (t : option (list num)) : obd :=
  {| o_d := {| d_sym := d_sym (o_d o); d_id := d_id (o_d o); d_weight := w; d_trans := t; d_order := d_order (o_d o);
               d_pre := d_pre (o_d o); d_atom := d_atom (o_d o); d_num := d_num (o_d o) |};
     o_node := o_node o; o_k := o_k o |}.
Definition with_open (g : molgen) (op : list obd) : molgen :=
  {| m_res := m_res g; m_natoms := m_natoms g; m_log := m_log g; m_open := op; m_mass := m_mass g |}.

(* get_start (stochastic.py:165-199) *)
Definition get_start (s : gstoch) (ei : nat) (prefix : option molgen) : run molgen :=
  match prefix with
  | None =>
      if negb (is_empty_terminal (s_left s)) then fail ERuntime "prefix expected" else
      rdo k <- choose (descrs_of (endb s)) None ;;
      match nth_error (endb s) k with
      | None => fail EIndex "end bond"
      | Some (ti, _, _) =>
          match nth_error (s_end s) ti with
          | None => fail EIndex "end token"
          | Some tok =>
              if negb (Nat.eqb (List.length (t_bds tok)) 1) then fail ERuntime "single bond descriptor expected"
              else lift (new_mol tok (mkref ei KEnd ti))
          end
      end
  | Some g =>
      match m_open g with
      | [a] =>
          if negb (str_eqb (print_noext (o_d a)) (print_noext (s_left s))) then fail ERuntime "prefix not compatible with left terminal"
          else ret (with_open g [set_wt a (d_weight (s_left s)) (d_trans (s_left s))])
      | _ => fail ERuntime "single bond descriptor expected"
      end
  end.

(* add_repeat_unit (stochastic.py:202-230) *)
Definition add_unit (s : gstoch) (ei : nat) (g : molgen) : run molgen :=
  rdo i <- choose (map o_d (m_open g)) None ;;
  match nth_error (m_open g) i with
  | None => fail EIndex "open"
  | Some sb =>
      rdo k <- (match qtrans (o_d sb), qw (o_d sb) with
            | Some (Some tr), Some w =>
                if Qeq_bool w 0 then fail EValue "zero total transition weight"
                else if existsb (fun x => negb (Qle_bool 0 x)) (trans_law tr w) then fail EValue "negative probability"
                else pick (seq 0 (List.length tr)) (trans_law tr w)
            | Some None, _ => choose (descrs_of (repb s)) (Some (o_d sb))
            | _, _ => fail EValue "non-finite weight"
            end) ;;
      let nrep := List.length (repb s) in
      match (if Nat.ltb k nrep then option_map (fun x => (KRep, s_rep s, x)) (nth_error (repb s) k)
             else option_map (fun x => (KEnd, s_end s, x)) (nth_error (endb s) (k - nrep))) with
      | None => fail EIndex "connecting bond"
      | Some (kind, toks, (ti, bi, _)) =>
          match nth_error toks ti with
          | None => fail EIndex "token"
          | Some tok => lift (attach g i tok (mkref ei kind ti) bi)
          end
      end
  end.

(* the end-group capping loop of finalize_mol (stochastic.py:283-295) *)
Fixpoint cap_loop (fuel : nat) (s : gstoch) (ei : nat) (g : molgen) : run molgen :=
  match fuel with
  | O => fun _ => OutOfFuel
  | S f =>
      match m_open g with
      | [] => ret g
      | _ =>
          rdo i <- choose (map o_d (m_open g)) None ;;
          match nth_error (m_open g) i with
          | None => fail EIndex "open"
          | Some sb =>
              rdo k <- choose (descrs_of (endb s)) (Some (o_d sb)) ;;
              match nth_error (endb s) k with
              | None => fail EIndex "end bond"
              | Some (ti, bi, _) =>
                  match nth_error (s_end s) ti with
                  | None => fail EIndex "end token"
                  | Some tok =>
                      rdo g' <- lift (attach g i tok (mkref ei KEnd ti) bi) ;;
                      cap_loop f s ei g'
                  end
              end
          end
      end
  end.

(* every loop iteration consumes at least one pick, so this fuel is never exhausted (Proofs/GenP.v) *)
Definition with_fuel {A} (f : nat -> run A) : run A := fun st => f (S (List.length (picks st))) st.

(* finalize_mol (stochastic.py:268-301); works on a deep copy in the caller *)
Definition finalize (s : gstoch) (ei : nat) (g : molgen) : run molgen :=
  if is_empty_terminal (s_right s) then with_fuel (fun f => cap_loop f s ei g)
  else
    rdo inv <- lift (parse_descr (compatible_bond_text (s_right s)) 0%Z [] None) ;;
    rdo i <- choose (map o_d (m_open g)) (Some inv) ;;
    match nth_error (m_open g) i with
    | None => fail EIndex "terminal"
    | Some term =>
        rdo g2 <- with_fuel (fun f => cap_loop f s ei (with_open g (remove_nth i (m_open g)))) ;;
        ret (with_open g2 (m_open g2 ++ [term]))
    end.

(* what one stochastic object did: drawn target, mass before, cumulative mass added after each unit *)
Record sinfo := { si_target : Q; si_start : Q; si_units : list Q; si_exhausted : bool }.

(* the do-while growth loop (stochastic.py:232-266); returns the finalized molecule *)
Fixpoint grow_loop (fuel : nat) (s : gstoch) (ei : nat) (start T : Q) (g : molgen) (units : list Q)
  : run (molgen * list Q * bool) :=
  match fuel with
  | O => fun _ => OutOfFuel
  | S f =>
      rdo g1 <- add_unit s ei g ;;
      let added := Qred (m_mass g1 - start) in
      match m_open g1 with
      | [] => ret (g1, units ++ [added], true)
      | _ =>
          rdo fin <- finalize s ei g1 ;;
          if Qle_bool added T then grow_loop f s ei start T g1 (units ++ [added])
          else ret (fin, units ++ [added], false)
      end
  end.

(* Stochastic.generate (stochastic.py:164-308) *)
Definition gen_stoch (s : gstoch) (ei : nat) (prefix : option molgen) : run (molgen * sinfo) :=
  if negb (s_generable s) then fail ERuntime "not generable" else
  match (match prefix with Some g => Nat.eqb (List.length (m_open g)) 1 | None => true end) with
  | false => fail ERuntime "prefix must have exactly one open bond descriptor"
  | true =>
      rdo g0 <- get_start s ei prefix ;;
      rdo T <- draw ;;
      rdo r <- with_fuel (fun f => grow_loop f s ei (m_mass g0) T g0 []) ;;
      let '(fin, units, ex) := r in
      ret (fin, {| si_target := T; si_start := m_mass g0; si_units := units; si_exhausted := ex |})
  end.

(* Molecule.generate (molecule.py:147-152) *)
Fixpoint gen_elems (els : list gelem) (ei : nat) (prefix : option molgen) (infos : list sinfo)
  : run (option molgen * list sinfo) :=
  match els with
  | [] => ret (prefix, infos)
  | ETok t :: r => rdo g <- gen_token t ei prefix ;; gen_elems r (S ei) (Some g) infos
  | EStoch s :: r => rdo gi <- gen_stoch s ei prefix ;; gen_elems r (S ei) (Some (fst gi)) (infos ++ [snd gi])
  end.
Definition gen_molecule (els : list gelem) : run (option molgen * list sinfo) := gen_elems els 0 None [].

Definition run_gen (els : list gelem) (pk : list nat) (tg : list Q) :=
  gen_molecule els {| picks := pk; targets := tg; trace := [] |}.
