(* Stochastic.__init__ / _validate / generable / generate_string (stochastic.py:24-162), statement by statement over the string
   primitives of PyStr.v, the descriptor parser of Bond.v and the token parser of Token.v.  The parameters of the distribution are not
   parsed here (ast.literal_eval + float): the model keeps the family picked by the translated dispatch and the text.
   Executable, no proofs. *)
From Coq Require Import List ZArith QArith Ascii String Bool.
From GBS Require Import Model.PyStr Model.Num Model.Bond Model.Token Model.DistFam Src.SrcDist.
Import ListNotations.
Open Scope Z_scope.

Record pstoch := { ps_left : descr; ps_right : descr; ps_rep : list token; ps_end : list token; ps_bds : list descr;
                   ps_dist : option (family * str) }.

Definition bond_chars : str := lit ".-=#$:/\@".
(* Distribution.__init__: raw_text.strip("| \t\n") *)
Definition dist_strip : str := [ch "|"; ch " "; ascii_of_nat 9; ascii_of_nat 10].

(* while i > 0 and middle_text[i] in r".-=#$:/\@": i -= 1 *)
Fixpoint back_over (fuel : nat) (s : str) (i : Z) : Z :=
  match fuel with
  | O => i
  | S f => if (0 <? i) && (match index s i with Some c => in_set bond_chars c | None => false end) then back_over f s (i - 1) else i
  end.

Section Stoch.
  Variable valid_atom : str -> bool.

  (* the loop over repeat_unit_text.split(",") / end_group_text.split(",") *)
  Fixpoint parse_units (pieces : list str) (bds : list descr) (acc : list token) : result (list token * list descr) :=
    match pieces with
    | [] => OK (rev acc, bds)
    | p :: rest =>
        let p' := strip p in
        match p' with
        | [] => parse_units rest bds acc
        | _ => do t <- parse_token valid_atom p' (Z.of_nat (List.length bds)); parse_units rest (bds ++ k_bds t) (t :: acc)
        end
    end.

  Definition parse_stoch (text : str) : result pstoch :=
    let raw := strip text in
    match index raw 0 with
    | None => Err EIndex "string index out of range"
    | Some c0 =>
        if negb (Ascii.eqb c0 (ch "{")) then Err ERuntime "does not start with '{'" else
        if rfind (lit "}") raw <? 0 then Err ERuntime "does not end with '}'" else
        let middle := slice raw (Some 1) (Some (rfind (lit "}") raw)) in
        match index middle (find (lit "]") middle + 1) with
        | None => Err EIndex "string index out of range"
        | Some c1 =>
            if Ascii.eqb c1 (ch "}") then Err ERuntime "empty stochastic object" else
            if find_at (lit "]") middle 1 <=? 0 then Err ERuntime "unterminated left terminal bond descriptor" else
            let bond_text := slice middle (Some (find (lit "[") middle)) (Some (find_at (lit "]") middle 1 + 1)) in
            let pre := slice middle None (Some (find (lit "[") middle)) in
            do lft <- parse_descr bond_text 0 pre None;
            let i := rfind (lit "[") middle in
            let right_text := slice middle (Some i) (Some (find_at (lit "]") middle i + 1)) in
            let i' := back_over (List.length middle) middle i in
            let right_pre := slice middle (Some i') (Some (find_at (lit "[") middle i')) in
            let '(rep_text, end_text) :=
              if contains (lit ";") middle
              then (slice middle (Some (find_at (lit "]") middle 1 + 1)) (Some (find (lit ";") middle)),
                    slice middle (Some (find (lit ";") middle + 1)) (Some (rfind (lit "[") middle)))
              else (slice middle (Some (find_at (lit "]") middle 1 + 1)) (Some (rfind (lit "[") middle)), []) in
            do r1 <- parse_units (split_char (ch ",") rep_text) [] [];
            let '(reps, bds1) := r1 in
            do r2 <- parse_units (split_char (ch ",") end_text) bds1 [];
            let '(ends, bds2) := r2 in
            do rgt <- parse_descr right_text (Z.of_nat (List.length bds2)) right_pre None;
            let tail := slice raw (Some (find (lit "}") raw + 1)) None in
            let dist_text := if 0 <=? find (lit ".|") tail then strip (slice tail None (Some (find (lit ".|") tail))) else strip tail in
            do dist <- (if (1 <? len dist_text)
                        then match dispatch dist_text with
                             | None => Err ERuntime "unknown distribution type"
                             | Some f => if startswith (required_prefix f) (strip_chars dist_strip dist_text) then OK (Some (f, dist_text))
                                         else Err ERuntime "distribution text does not start with its name"
                             end
                        else OK None);
            (* _validate *)
            let n := List.length bds2 in
            if existsb (fun d => match d_trans d with Some l => negb (Nat.eqb (List.length l) n) | None => false end) (bds2 ++ [lft; rgt])
            then Err ERuntime "invalid transition length" else
            OK {| ps_left := lft; ps_right := rgt; ps_rep := reps; ps_end := ends; ps_bds := bds2; ps_dist := dist |}
        end
    end.
End Stoch.

(* generable (stochastic.py:129-141): the distribution classes are all generable *)
Definition stoch_generable (s : pstoch) : bool :=
  forallb generable_descr (ps_bds s) && forallb token_generable (ps_rep s ++ ps_end s) && (match ps_dist s with Some _ => true | None => false end).

Section PrintStoch.
  Variable fprint : num -> str.
  Variable dprint : bool -> family * str -> str.     (* the distribution's own generate_string: not modelled *)

  Definition join_tokens (ext : bool) (l : list token) : str :=
    slice (List.concat (map (fun t => (print_token fprint ext t ++ lit ", ")%list) l)) None (Some (-2)).

  (* generate_string (stochastic.py:143-162) *)
  Definition print_stoch (ext : bool) (s : pstoch) : str :=
    strip (lit "{" ++ print_descr fprint ext (ps_left s) ++ join_tokens ext (ps_rep s)
           ++ (match ps_end s with [] => [] | _ => lit "; " ++ join_tokens ext (ps_end s) end)
           ++ print_descr fprint ext (ps_right s) ++ lit "}"
           ++ (match ps_dist s with Some d => dprint ext d | None => [] end))%list.
End PrintStoch.
