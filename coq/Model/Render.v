(* Printers as renderings: every generate_string of the library concatenates bar-free chunks and
   extension segments |...| (weights, distributions, mixture masses) that appear only when
   extension = True (bond.py:135-148, token.py:201-208, stochastic.py:146-162, molecule.py:139-145,
   system.py:149-154, mixture.py:89-94, distribution.py generate_string).  [erase_ext] deletes every
   |...| segment of a string.  Executable, no proofs. *)
From Coq Require Import List ZArith QArith Ascii String Bool.
From GBS Require Import Model.PyStr Model.Num Model.Bond Model.Token.
Import ListNotations.

Definition bar : ascii := ch "|".

Fixpoint erase_aux (inside : bool) (s : str) : str :=
  match s with
  | [] => []
  | c :: r => if Ascii.eqb c bar then erase_aux (negb inside) r
              else if inside then erase_aux inside r else c :: erase_aux inside r
  end.
Definition erase_ext (s : str) : str := erase_aux false s.

Inductive part := Chunk (s : str) | Ext (s : str).
Definition render_part (ext : bool) (p : part) : str :=
  match p with Chunk s => s | Ext s => if ext then bar :: s ++ [bar] else [] end.
Definition render (ext : bool) (ps : list part) : str := List.concat (map (render_part ext) ps).
Definition barfree (s : str) : bool := forallb (fun c => negb (Ascii.eqb c bar)) s.
Definition part_ok (p : part) : bool := match p with Chunk s => barfree s | Ext s => barfree s end.

Section Parts.
  Variable fprint : num -> str.

  (* bond.py:135-148 without the final strip *)
  Definition weight_text_of (d : descr) : option str :=
    match d_trans d with
    | Some l => Some (slice (List.concat (map (fun t => fprint t ++ lit " ") l)) None (Some (-1)%Z))
    | None => if num_eqb (d_weight d) (Fin 1) then None else Some (fprint (d_weight d))
    end.
  Definition descr_parts (d : descr) : list part :=
    [Chunk (lit "[" ++ d_sym d ++ id_str (d_id d))] ++ (match weight_text_of d with Some w => [Ext w] | None => [] end) ++ [Chunk (lit "]")].

  Definition token_parts (t : token) : list part :=
    flat_map (fun e => match e with TStr s => [Chunk s] | TAtom a => [Chunk a] | TBond d => descr_parts d end) (k_elements t).

  (* stochastic.py:146-162, molecule.py:139-145, system.py:149-154, mixture.py:89-94 over already parsed components *)
  Record pstoch := { ps_left : descr; ps_right : descr; ps_rep : list token; ps_end : list token; ps_dist : option str }.
  Inductive pelem := PTok (t : token) | PStoch (s : pstoch).
  Record pmol := { pm_elems : list pelem; pm_mix : option str }.      (* mixture text inside the bars, e.g. "5.0" or "5.0%" *)

  Fixpoint join_parts (sep : str) (l : list (list part)) : list part :=
    match l with [] => [] | [x] => x | x :: r => x ++ [Chunk sep] ++ join_parts sep r end.
  Definition stoch_parts (s : pstoch) : list part :=
    [Chunk (lit "{")] ++ descr_parts (ps_left s) ++ join_parts (lit ", ") (map token_parts (ps_rep s))
    ++ (match ps_end s with [] => [] | _ => [Chunk (lit "; ")] ++ join_parts (lit ", ") (map token_parts (ps_end s)) end)
    ++ descr_parts (ps_right s) ++ [Chunk (lit "}")] ++ (match ps_dist s with Some t => [Ext t] | None => [] end).
  Definition elem_parts (e : pelem) : list part := match e with PTok t => token_parts t | PStoch s => stoch_parts s end.
  Definition mol_parts (m : pmol) : list part :=
    flat_map elem_parts (pm_elems m) ++ (match pm_mix m with Some t => [Chunk (lit "."); Ext t] | None => [] end).
  Definition sys_parts (ms : list pmol) : list part := flat_map mol_parts ms.
End Parts.

(* a printer for numbers with a short decimal expansion (x = n / 10^k, 0 <= x, k <= 3), enough for the finite universe of C03:
   Python's repr for such values is digits '.' digits with at least one fractional digit *)
Definition fprint_dec (x : num) : str :=
  match x with
  | Fin q =>
      let n1000 := (Qnum q * 1000 / Zpos (Qden q))%Z in
      let ip := (n1000 / 1000)%Z in
      let fp := (n1000 mod 1000)%Z in
      let f3 := [ascii_of_nat (Z.to_nat (fp / 100) + 48); ascii_of_nat (Z.to_nat ((fp / 10) mod 10) + 48); ascii_of_nat (Z.to_nat (fp mod 10) + 48)] in
      let f := if (fp mod 10 =? 0)%Z then (if ((fp / 10) mod 10 =? 0)%Z then firstn 1 f3 else firstn 2 f3) else f3 in
      z_to_str ip ++ lit "." ++ f
  | PInf => lit "inf" | NInf => lit "-inf" | NaN => lit "nan"
  end.
