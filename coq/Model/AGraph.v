(* Stochastic atom graph: stochastic_atom_graph.py (StochasticAtomGraph.generate) over abstract
   tokens.  Oracle data from RDKit: atom count and internal bonds of each token fragment; node
   properties (element, charge, aromaticity) are read from the same fragments and compared by the
   oracle directly.  Node id = offset of the token + local atom index.  Executable, no proofs. *)
From Coq Require Import List ZArith QArith Bool Arith.
From GBS Require Import Model.PyStr Model.Num Model.Bond Model.Select Model.Gen Model.RGraph.
Import ListNotations.

Record atok := { k_tok : gtoken; k_bonds : list (Z * Z * Z) }.     (* internal bonds (a, b, RDKit bond type) *)
Inductive aelem := ATok (t : atok) | AStoch (l r : descr) (rep ends : list atok).

Inductive wkind := WStatic | WStoch | WTerm | WTrans.
Record aedge := { a_u : Z; a_v : Z; a_bt : Z; a_kind : wkind; a_w : Q }.

(* int(BondType): rdkit.Chem.rdchem.BondType values *)
Definition order_code (o : order) : Z :=
  match o with OUnspec => 0 | OSingle => 1 | ODouble => 2 | OTriple => 3 | OQuad => 4 | OArom => 7 end%Z.

Definition toks_of (e : aelem) : list atok := match e with ATok t => [t] | AStoch _ _ rep ends => rep ++ ends end.
Definition nrep_of (e : aelem) : nat := match e with ATok _ => 0%nat | AStoch _ _ rep _ => List.length rep end.
Definition natoms_tok (t : atok) : Z := t_natoms (k_tok t).
Fixpoint tok_offsets (off : Z) (ts : list atok) : list Z :=
  match ts with [] => [] | t :: r => off :: tok_offsets (off + natoms_tok t) r end.
Definition elem_natoms (e : aelem) : Z := fold_right Z.add 0%Z (map natoms_tok (toks_of e)).
Fixpoint elem_offsets (off : Z) (es : list aelem) : list Z :=
  match es with [] => [] | e :: r => off :: elem_offsets (off + elem_natoms e) r end.

(* descriptors of an element with the index of their token (repeat tokens first, then end tokens) *)
Definition flat (e : aelem) : list (nat * descr) :=
  flat_map (fun it => map (fun d => (fst it, d)) (t_bds (k_tok (snd it)))) (index_from 0 (toks_of e)).

Definition datom (d : descr) : Z := match d_atom d with Some a => a | None => 0%Z end.
Definition off_of (offs : list Z) (ti : nat) : Z := nth ti offs 0%Z.

Definition static_edges (off : Z) (t : atok) : list aedge :=
  flat_map (fun b => let '(x, y, ty) := b in
              [{| a_u := off + x; a_v := off + y; a_bt := ty; a_kind := WStatic; a_w := 1 |};
               {| a_u := off + y; a_v := off + x; a_bt := ty; a_kind := WStatic; a_w := 1 |}]%Z) (k_bonds t).

Fixpoint statics (offs : list Z) (ts : list atok) : list aedge :=
  match offs, ts with o :: ro, t :: rt => static_edges o t ++ statics ro rt | _, _ => [] end.

(* _add_stochastic_bonds *)
Definition stoch_edges (e : aelem) (offs : list Z) : list aedge :=
  let fl := flat e in
  let nr := nrep_of e in
  flat_map (fun td =>
    let '(ti, d) := td in
    if negb (Nat.ltb ti nr) then [] else
    let first := (datom d + off_of offs ti)%Z in
    match qtrans d with
    | Some (Some tr) =>
        flat_map (fun ip =>
          match nth_error fl (fst ip) with
          | Some (tj, o) =>
              if compatible d o && negb (Qle_bool (snd ip) 0) then
                let second := (datom o + off_of offs tj)%Z in
                [{| a_u := first; a_v := second; a_bt := order_code (d_order d); a_kind := WStoch; a_w := snd ip |};
                 {| a_u := first; a_v := second; a_bt := order_code (d_order d); a_kind := WTerm; a_w := wq d |}]
              else []
          | None => []
          end) (index_from 0 tr)
    | _ =>
        flat_map (fun to =>
          let '(tj, o) := to in
          if compatible d o && negb (Qle_bool (wq o) 0) then
            [{| a_u := first; a_v := (datom o + off_of offs tj)%Z; a_bt := order_code (d_order d);
                a_kind := (if Nat.ltb tj nr then WStoch else WTerm); a_w := wq o |}]
          else []) fl
    end) fl.

Definition inv_terminal (t : descr) : option descr :=
  match parse_descr (compatible_bond_text t) 0%Z [] None with OK d => Some d | Err _ _ => None end.

(* _add_transition_bonds for one pair of consecutive elements *)
Definition trans_edges (lhs rhs : aelem) (offl offr : list Z) : list aedge :=
  flat_map (fun tl =>
    let '(ti, dl) := tl in
    flat_map (fun tr =>
      let '(tj, dr) := tr in
      if negb (compatible dl dr) then [] else
      let ok_r := match rhs with
                  | AStoch l _ _ _ => match inv_terminal l with Some i => compatible i dr | None => false end
                  | ATok _ => true end in
      let ok_l := match lhs with
                  | AStoch _ r _ _ => match inv_terminal r with Some i => compatible i dl | None => false end
                  | ATok _ => true end in
      let into := match rhs with AStoch _ _ _ _ => Nat.ltb tj (nrep_of rhs) | ATok _ => true end in
      if ok_r && ok_l && into then
        [{| a_u := (off_of offl ti + datom dl)%Z; a_v := (off_of offr tj + datom dr)%Z; a_bt := order_code (d_order dl);
            a_kind := WTrans; a_w := wq dr |}]
      else []) (flat rhs)) (flat lhs).

Fixpoint graph_elems (es : list aelem) (offs : list Z) : list aedge :=
  match es, offs with
  | e :: re, o :: ro =>
      let toffs := tok_offsets o (toks_of e) in
      statics toffs (toks_of e)
      ++ (match e with AStoch _ _ _ _ => stoch_edges e toffs | ATok _ => [] end)
      ++ (match re, ro with
          | e2 :: _, o2 :: _ => trans_edges e e2 toffs (tok_offsets o2 (toks_of e2))
          | _, _ => []
          end)
      ++ graph_elems re ro
  | _, _ => []
  end.

Definition atom_graph (es : list aelem) : Z * list aedge :=
  (fold_right Z.add 0%Z (map elem_natoms es), graph_elems es (elem_offsets 0 es)).
