(* The splitting loop of System.__init__ (system.py:105-126, with the `end_pos <= 0` repair): a system string
   is cut after every mixture specifier `.|...|`.  Molecule construction of the pieces is not part of this
   model (it can only abort the loop).  Executable, no proofs. *)
From Coq Require Import List ZArith Ascii String Bool.
From GBS Require Import Model.PyStr Model.Num Model.Bond.
Import ListNotations.
Open Scope Z_scope.

Fixpoint split_system (fuel : nat) (text : str) (acc : list str) : result (list str * str) :=
  match fuel with
  | O => Err EFuel "split_system"
  | S f =>
      if find (lit ".|") text <? 0 then OK (rev acc, text) else
      let end_pos := find_at (lit "|") text (find (lit ".|") text + 2) + 1 in
      if end_pos <=? 0 then Err ERuntime "opening '.|' but no closing '|'" else
      split_system f (strip (slice text (Some end_pos) None)) (slice text None (Some end_pos) :: acc)
  end.

(* pieces (each ending with its specifier) and the remaining text without specifier *)
Definition system_pieces (raw : str) : result (list str * str) :=
  let text := strip raw in split_system (S (List.length text)) text [].
