(* Rule selection and completeness check of SMARTS_ASSIGNMENTS.get_type_assignments
   (forcefield_helper.py:116-145), per atom.  SMARTS matching itself is an oracle: [matches r] is
   the list of atoms rule r matches.  Rules are in file order; a rule is (its position, the length
   of its SMARTS text, its type).  Executable, no proofs. *)
From Coq Require Import List Bool Arith.
Import ListNotations.

Record rule := { r_id : nat; r_len : nat; r_type : nat }.

(* forcefield_helper.py:129-135: start with the first matching rule, replace only by a strictly longer one *)
Definition longer (b x : rule) : rule := if Nat.ltb (r_len b) (r_len x) then x else b.
Definition best (rs : list rule) : option rule :=
  match rs with [] => None | r :: rest => Some (fold_left longer rest r) end.

Definition matches_atom (matches : rule -> list nat) (a : nat) (r : rule) : bool := existsb (Nat.eqb a) (matches r).
Definition rules_for (rules : list rule) (matches : rule -> list nat) (a : nat) : list rule :=
  filter (matches_atom matches a) rules.

Definition assignment (rules : list rule) (matches : rule -> list nat) (natoms : nat) : list (option rule) :=
  map (fun a => best (rules_for rules matches a)) (seq 0 natoms).

Definition is_some {A} (o : option A) : bool := match o with Some _ => true | None => false end.

(* OK: every atom has exactly one rule; Error: the dedicated error carrying the partial assignment *)
Inductive ffres := FOk (l : list rule) | FPartial (l : list (option rule)).
Fixpoint all_some {A} (l : list (option A)) : option (list A) :=
  match l with
  | [] => Some []
  | Some x :: r => match all_some r with Some r' => Some (x :: r') | None => None end
  | None :: _ => None
  end.
Definition assign (rules : list rule) (matches : rule -> list nat) (natoms : nat) : ffres :=
  let d := assignment rules matches natoms in
  match all_some d with Some l => FOk l | None => FPartial d end.

(* MolGen.get_forcefield_types (mol_gen.py:212-226): partially generated molecules are refused *)
Definition typing_guard (open_descriptors : nat) : bool := Nat.eqb open_descriptors 0.
