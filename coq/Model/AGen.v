(* Generation from a stochastic atom graph: graph_generate.AtomGraph.generate, as a function of the graph,
   a pick stream (one pick per rng.choice: position in the candidate list) and the drawn targets.
   Oracle data: the static adjacency of every node in networkx's order, the static bond types, the start
   node found by _find_start_source.  Reuses the run monad of Model/Gen.v.  Executable, no proofs. *)
From Coq Require Import List ZArith QArith Bool Arith String.
From GBS Require Import Model.PyStr Model.Num Model.Bond Model.Select Model.Gen.
Import ListNotations.
Open Scope nat_scope.

Record sedge := { se_v : nat; se_bt : Z; se_w : Q }.
Record snode := { sn_mass : Q; sn_key : Q * Q; sn_T : list sedge; sn_E : list sedge; sn_S : list sedge; sn_adj : list nat }.
Record sgraph := { sg_nodes : list snode; sg_static : list (nat * nat * Z) }.

(* g_inst, ge_link: ghost data (the residue instance an atom belongs to = the id of its first atom; whether a bond joins two residues);
   no decision of the generation reads them *)
Record gnode := { g_sn : nat; g_inst : nat; g_T : list sedge; g_E : list sedge; g_S : list sedge }.
Record gedge := { ge_a : nat; ge_b : nat; ge_bt : Z; ge_link : bool }.
Record astate := { a_nodes : list gnode; a_edges : list gedge; a_mw : list Q (* newest element first *);
                   a_draws : list (Q * Q * Q) }.

Definition snode_at (G : sgraph) (n : nat) : snode :=
  nth n (sg_nodes G) {| sn_mass := 0; sn_key := (0, 0)%Q; sn_T := []; sn_E := []; sn_S := []; sn_adj := [] |}.

Definition bump_mw (mw : list Q) (m : Q) : list Q := match mw with [] => [m] | x :: r => Qred (x + m) :: r end.

(* _add_node *)
Definition add_node (G : sgraph) (st : astate) (sn : nat) (inst : option nat) (tr te sc : bool) : astate * nat :=
  let s := snode_at G sn in
  ({| a_nodes := a_nodes st ++ [{| g_sn := sn; g_inst := match inst with Some r => r | None => List.length (a_nodes st) end; g_T := if tr then sn_T s else []; g_E := if te then sn_E s else []; g_S := if sc then sn_S s else [] |}];
      a_edges := a_edges st; a_mw := bump_mw (a_mw st) (sn_mass s); a_draws := a_draws st |}, List.length (a_nodes st)).

(* nx.dfs_tree preorder over the static adjacency; [order] = the visited nodes, newest first *)
Fixpoint dfs (fuel : nat) (G : sgraph) (stack : list (list nat)) (order : list nat) : list nat :=
  match fuel with
  | O => rev order
  | S f =>
      match stack with
      | [] => rev order
      | [] :: rest => dfs f G rest order
      | (m :: ms) :: rest =>
          if existsb (Nat.eqb m) order then dfs f G (ms :: rest) order
          else dfs f G (sn_adj (snode_at G m) :: ms :: rest) (m :: order)
      end
  end.
Definition adj_weight (G : sgraph) (u : nat) : nat := S (List.length (sn_adj (snode_at G u))).
Definition dfs_order (G : sgraph) (src : nat) : list nat :=
  let total := fold_right (fun u a => adj_weight G u + a) 0 (seq 0 (List.length (sg_nodes G))) in
  dfs (S (S (S total))) G [[src]] [].

Fixpoint assoc (k : nat) (m : list (nat * nat)) : option nat :=
  match m with [] => None | (a, b) :: r => if Nat.eqb a k then Some b else assoc k r end.

(* _fill_static_edges *)
Definition fs_step (G : sgraph) (sn inst : nat) (acc : astate * list (nat * nat)) (n : nat) : astate * list (nat * nat) :=
  let '(s, m) := acc in
  if Nat.eqb n sn then (s, m) else let '(s', id) := add_node G s n (Some inst) true true true in (s', (n, id) :: m).
Definition fs_edge (smap : list (nat * nat)) (e : nat * nat * Z) : list gedge :=
  let '(u, v, bt) := e in
  match assoc u smap, assoc v smap with Some a, Some b => [{| ge_a := a; ge_b := b; ge_bt := bt; ge_link := false |}] | _, _ => [] end.
Definition fs_edges (G : sgraph) (smap : list (nat * nat)) : list gedge := flat_map (fs_edge smap) (sg_static G).
Definition fill_static (G : sgraph) (st : astate) (cur : nat) : astate :=
  let sn := match nth_error (a_nodes st) cur with Some g => g_sn g | None => 0 end in
  let inst := match nth_error (a_nodes st) cur with Some g => g_inst g | None => cur end in
  let '(st1, smap) := fold_left (fs_step G sn inst) (dfs_order G sn) (st, [(sn, cur)]) in
  {| a_nodes := a_nodes st1; a_edges := a_edges st1 ++ fs_edges G smap; a_mw := a_mw st1; a_draws := a_draws st1 |}.

Definition wsumQ (l : list sedge) : Q := fold_right (fun e a => (se_w e + a)%Q) 0%Q l.
Definition pickn (n : nat) : run nat := pick (seq 0 n) (repeat 1%Q n).

Fixpoint positions_where {A} (f : A -> bool) (k : nat) (l : list A) : list nat :=
  match l with [] => [] | x :: r => (if f x then [k] else []) ++ positions_where f (S k) r end.

(* _next_stochastic_edge *)
Definition next_stoch (st : astate) : run (option nat) :=
  let cands := positions_where (fun g => negb (Qle_bool (wsumQ (g_S g)) 0)) 0 (a_nodes st) in
  match cands with
  | [] => ret None
  | _ => rdo k <- pickn (List.length cands) ;; ret (nth_error cands k)
  end.

Definition set_node (st : astate) (i : nat) (g : gnode) : astate :=
  {| a_nodes := firstn i (a_nodes st) ++ [g] ++ skipn (S i) (a_nodes st); a_edges := a_edges st; a_mw := a_mw st; a_draws := a_draws st |}.
Definition clear_node (g : gnode) : gnode := {| g_sn := g_sn g; g_inst := g_inst g; g_T := []; g_E := []; g_S := [] |}.

(* _next_termination_edge *)
Definition next_term (st : astate) (ex : nat) : run (option (nat * sedge)) :=
  match positions_where (fun g => match g_E g with [] => false | _ => true end) 0 (a_nodes st) with
  | [] => ret None
  | all =>
      match filter (fun i => negb (Nat.eqb i ex)) all with
      | [] => ret None
      | i :: _ =>
          match nth_error (a_nodes st) i with
          | None => ret None
          | Some g => rdo k <- pickn (List.length (g_E g)) ;; ret (option_map (fun e => (i, e)) (nth_error (g_E g) k))
          end
      end
  end.

(* _terminate_graph (the caller keeps the snapshot) *)
Fixpoint terminate (fuel : nat) (G : sgraph) (st : astate) (ex : nat) : run astate :=
  match fuel with
  | O => fun _ => OutOfFuel
  | S f =>
      rdo r <- next_term st ex ;;
      match r with
      | None => ret st
      | Some (i, e) =>
          let '(st1, nid) := add_node G st (se_v e) None false false false in
          let st2 := {| a_nodes := a_nodes st1; a_edges := a_edges st1 ++ [{| ge_a := i; ge_b := nid; ge_bt := se_bt e; ge_link := true |}]; a_mw := a_mw st1; a_draws := a_draws st1 |} in
          let st2' := fill_static G st2 nid in   (* the end group is a whole token *)
          let st3 := match nth_error (a_nodes st2') i with Some g => set_node st2' i (clear_node g) | None => st2' end in
          terminate f G st3 ex
      end
  end.

Definition qkey_eqb (a b : Q * Q) : bool := Qeq_bool (fst a) (fst b) && Qeq_bool (snd a) (snd b).
Fixpoint lookup_draw (k : Q * Q) (m : list (Q * Q * Q)) : option Q :=
  match m with [] => None | (a, b, v) :: r => if qkey_eqb (a, b) k then Some v else lookup_draw k r end.

(* get_target_mw: one draw per (Mw, Mn) pair, remembered *)
Definition target_of (G : sgraph) (st : astate) (nid : nat) : run (Q * astate) :=
  let key := match nth_error (a_nodes st) nid with Some g => sn_key (snode_at G (g_sn g)) | None => (0, 0)%Q end in
  match lookup_draw key (a_draws st) with
  | Some v => ret (v, st)
  | None => rdo v <- draw ;; ret (v, {| a_nodes := a_nodes st; a_edges := a_edges st; a_mw := a_mw st; a_draws := (fst key, snd key, v) :: a_draws st |})
  end.

(* _add_stochastic_connection *)
Definition add_conn (G : sgraph) (st : astate) (i : nat) : run (astate * nat) :=
  match nth_error (a_nodes st) i with
  | None => fail EIndex "node"
  | Some g =>
      rdo k <- pickn (List.length (g_S g)) ;;
      match nth_error (g_S g) k with
      | None => fail EIndex "edge"
      | Some e =>
          let st1 := set_node st i (clear_node g) in
          let '(st2, nid) := add_node G st1 (se_v e) None false false false in
          ret ({| a_nodes := a_nodes st2; a_edges := a_edges st2 ++ [{| ge_a := i; ge_b := nid; ge_bt := se_bt e; ge_link := true |}]; a_mw := a_mw st2; a_draws := a_draws st2 |}, nid)
      end
  end.

Definition head_mw (st : astate) : Q := match a_mw st with x :: _ => x | [] => 0%Q end.

(* _fill_stochastic_edges: the while loop after the first static fill *)
Fixpoint stoch_loop (fuel : nat) (G : sgraph) (st : astate) : run astate :=
  match fuel with
  | O => fun _ => OutOfFuel
  | S f =>
      rdo nx <- next_stoch st ;;
      match nx with
      | None => ret st
      | Some ex =>
          rdo capped <- with_fuel (fun f' => terminate f' G st ex) ;;
          rdo tv <- target_of G capped ex ;;
          let '(T, capped') := tv in
          if negb (Qle_bool T (head_mw capped')) then
            (* reverse the termination: graph and mw come back from the snapshot, the draw map stays *)
            let back := {| a_nodes := a_nodes st; a_edges := a_edges st; a_mw := a_mw st; a_draws := a_draws capped' |} in
            rdo r <- add_conn G back ex ;;
            stoch_loop f G (fill_static G (fst r) (snd r))
          else
            ret {| a_nodes := map (fun g => {| g_sn := g_sn g; g_inst := g_inst g; g_T := g_T g; g_E := []; g_S := [] |}) (a_nodes capped');
                   a_edges := a_edges capped'; a_mw := a_mw capped'; a_draws := a_draws capped' |}
      end
  end.

Definition fill_stoch (G : sgraph) (st : astate) (last : nat) : run astate :=
  rdo st' <- with_fuel (fun f => stoch_loop f G (fill_static G st last)) ;;
  ret {| a_nodes := a_nodes st'; a_edges := a_edges st'; a_mw := 0%Q :: a_mw st'; a_draws := a_draws st' |}.

(* generate: the transition loop *)
Fixpoint trans_loop (fuel : nat) (G : sgraph) (st : astate) (nid : nat) : run astate :=
  match fuel with
  | O => fun _ => OutOfFuel
  | S f =>
      rdo st1 <- fill_stoch G st nid ;;
      rdo i <- pickn (List.length (a_nodes st1)) ;;
      match nth_error (a_nodes st1) i with
      | None => fail EIndex "node"
      | Some g =>
          match g_T g with
          | [] => ret st1
          | T =>
              rdo k <- pickn (List.length T) ;;
              match nth_error T k with
              | None => fail EIndex "edge"
              | Some e =>
                  let cleared := {| a_nodes := map (fun g => {| g_sn := g_sn g; g_inst := g_inst g; g_T := []; g_E := g_E g; g_S := g_S g |}) (a_nodes st1);
                                    a_edges := a_edges st1; a_mw := a_mw st1; a_draws := a_draws st1 |} in
                  let '(st2, nid') := add_node G cleared (se_v e) None false false false in
                  trans_loop f G {| a_nodes := a_nodes st2; a_edges := a_edges st2 ++ [{| ge_a := i; ge_b := nid'; ge_bt := se_bt e; ge_link := true |}]; a_mw := a_mw st2; a_draws := a_draws st2 |} nid'
              end
          end
      end
  end.

Definition agen (G : sgraph) (start : nat) : run astate :=
  let '(st0, nid) := add_node G {| a_nodes := []; a_edges := []; a_mw := [0%Q]; a_draws := [] |} start None true true true in
  with_fuel (fun f => trans_loop f G st0 nid).
Definition run_agen (G : sgraph) (start : nat) (pk : list nat) (tg : list Q) := agen G start {| picks := pk; targets := tg; trace := [] |}.
