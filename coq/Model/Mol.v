(* Mixture.__init__ (mixture.py:25-52; the number is what stands after the leading point, bars (and percent sign) stripped: fix of 2026-10-02) and Molecule.__init__ / generable (molecule.py:22-152), statement by statement, over the parsers
   of Bond.v, Token.v and Stoch.v.  The while loop over '{' runs on fuel; OutOfFuel is a distinct result (EFuel).  Executable, no proofs. *)
From Coq Require Import List ZArith QArith Ascii String Bool.
From GBS Require Import Model.PyStr Model.Num Model.Bond Model.Token Model.DistFam Src.SrcDist Model.Stoch.
Import ListNotations.
Open Scope Z_scope.

Record pmix := { mx_abs : option num; mx_rel : option num }.

Definition num_lt0 (a : num) : bool := match a with Fin x => negb (Qle_bool 0 x) | NInf => true | _ => false end.
Definition num_gt (a : num) (b : Q) : bool := match a with Fin x => negb (Qle_bool x b) | PInf => true | _ => false end.

Definition parse_mixture (raw : str) : result pmix :=
  match index raw 0 with
  | None => Err EIndex "string index out of range"
  | Some c =>
      if negb (Ascii.eqb c (ch ".")) then Err ERuntime "mixture descriptions start with '.'" else
      if contains (lit "%") raw then
        match py_float (strip_chars (lit "|%") (slice raw (Some 1) None)) with
        | None => Err EValue "could not convert string to float"
        | Some r => if num_lt0 r || num_gt r 100 then Err ERuntime "invalid percent" else OK {| mx_abs := None; mx_rel := Some r |}
        end
      else
        match py_float (strip_chars (lit "|") (slice raw (Some 1) None)) with
        | None => OK {| mx_abs := None; mx_rel := None |}          (* warning only: the system will not be generable *)
        | Some a => if num_lt0 a then Err ERuntime "invalid absolute mass" else OK {| mx_abs := Some a; mx_rel := None |}
        end
  end.

Inductive melem := MTok (t : token) | MStoch (s : pstoch).
Record pmolecule := { ml_elems : list melem; ml_mix : option pmix }.

Section Mol.
  Variable valid_atom : str -> bool.
  Variable fprint : num -> str.

  Definition tok0 (text : str) : result token := parse_token valid_atom text 0.

  Definition last_descr_of (e : melem) : result descr :=
    match e with
    | MStoch s => OK (ps_right s)
    | MTok t => match rev (k_bds t) with d :: _ => OK d | [] => Err EIndex "list index out of range" end
    end.

  (* the body of `while stochastic_text.find("{") >= 0` *)
  Fixpoint mol_loop (fuel : nat) (text : str) (elems : list melem) : result (str * list melem) :=
    match fuel with
    | O => Err EFuel "fuel"
    | S f =>
        if find (lit "{") text <? 0 then OK (text, elems) else
        let pre_token := strip (slice text None (Some (find (lit "{") text))) in
        do pre <- (match pre_token with
                   | [] => OK None
                   | _ =>
                       do p <- tok0 pre_token;
                       match rev elems with
                       | [] => OK (Some (pre_token, p))
                       | lst :: _ =>
                           do other <- last_descr_of lst;
                           match k_bds p with
                           | _ :: _ =>
                               let found := existsb (fun bd => match lst with
                                                               | MStoch _ => str_eqb (print_descr fprint false bd) (print_descr fprint false other)
                                                               | MTok _ => compatible bd other
                                                               end) (k_bds p) in
                               if found then OK (Some (pre_token, p)) else Err ERuntime "only incompatible bond descriptors with previous element"
                           | [] =>
                               let pt := (compatible_bond_text other ++ pre_token)%list in
                               do p2 <- tok0 pt; OK (Some (pt, p2))
                           end
                       end
                   end);
        let text1 := strip (slice text (Some (find (lit "{") text)) None) in
        let end_pos := find (lit "}") text1 + 1 in
        let end_pos := if (end_pos <? len text1) && (match index text1 end_pos with Some c => Ascii.eqb c (ch "|") | None => false end)
                       then find_at (lit "|") text1 (end_pos + 2) + 1 else end_pos in
        do st <- parse_stoch valid_atom (slice text1 None (Some end_pos));
        do elems' <- (match pre with
                      | None => OK (elems ++ [MStoch st])%list
                      | Some (pt, p) =>
                          let min_expected := match elems with [] => 1%nat | _ => 2%nat end in
                          if Nat.ltb (List.length (k_bds p)) min_expected then
                            let bt := compatible_bond_text (ps_left st) in
                            let bt := (slice bt None (Some (-1)) ++ lit "|0|]")%list in
                            do p2 <- tok0 (pt ++ bt)%list; OK (elems ++ [MTok p2; MStoch st])%list
                          else OK (elems ++ [MTok p; MStoch st])%list
                      end);
        mol_loop f (strip (slice text1 (Some end_pos) None)) elems'
    end.

  Definition parse_molecule (text0 : str) : result pmolecule :=
    let raw := strip text0 in
    do r <- (if 0 <=? find (lit ".|") raw then
               let start := find (lit ".|") raw in
               let stop := find_at (lit "|") raw (start + 3) + 1 in
               let mixture_text := slice raw (Some start) (Some stop) in
               match strip (slice raw (Some stop) None) with
               | _ :: _ => Err ERuntime "does not end with a mixture descriptor"
               | [] => do m <- parse_mixture mixture_text; OK (slice raw None (Some start), Some m)
               end
             else OK (raw, None));
    let '(text, mix) := r in
    do le <- mol_loop (S (List.length text)) text [];
    let '(rest, elems) := le in
    match rest with
    | [] => OK {| ml_elems := elems; ml_mix := mix |}
    | _ =>
        do t <- tok0 rest;
        do t' <- (match rev elems, k_bds t with
                  | lst :: _, [] => do other <- last_descr_of lst; tok0 (compatible_bond_text other ++ rest)%list
                  | _, _ => OK t
                  end);
        OK {| ml_elems := (elems ++ [MTok t'])%list; ml_mix := mix |}
    end.
End Mol.

Definition molecule_generable (m : pmolecule) : bool :=
  forallb (fun e => match e with MTok t => token_generable t | MStoch s => stoch_generable s end) (ml_elems m).
