(* Selection law of core.py:94-122 (candidate filter, weights, the +1 bump for equal weights,
   normalisation) and the explicit-transition law of stochastic.py:207-209. Executable, no proofs. *)
From Coq Require Import List ZArith QArith Bool.
From GBS Require Import Model.PyStr Model.Num Model.Bond.
Import ListNotations.
Open Scope Q_scope.

Definition total (l : list Q) : Q := fold_right Qplus 0 l.

Fixpoint all_eqb (x : Q) (l : list Q) : bool :=
  match l with [] => true | y :: l' => Qeq_bool x y && all_eqb x l' end.

(* core.py:108-110: `if len(idx) > 0 and np.all(weights == weights[0]): weights += 1` *)
Definition bump (w : list Q) : list Q :=
  match w with [] => [] | x :: _ => if all_eqb x w then map (fun y => y + 1) w else w end.

(* core.py:111: weights /= np.sum(weights) *)
Definition law (w : list Q) : list Q := let b := bump w in map (fun y => y / total b) b.

(* stochastic.py:207: prob = transitions / weight *)
Definition trans_law (tr : list Q) (w : Q) : list Q := map (fun t => t / w) tr.

(* core.py:94-99: positions of the candidates compatible with [bond]; all positions for None *)
Fixpoint compat_idx_from (k : nat) (l : list descr) (bond : option descr) : list nat :=
  match l with
  | [] => []
  | o :: l' =>
      let r := compat_idx_from (S k) l' bond in
      match bond with
      | None => k :: r
      | Some b => if compatible b o then k :: r else r
      end
  end.
Definition compat_idx (l : list descr) (bond : option descr) : list nat := compat_idx_from 0 l bond.
