(* Cache automaton of forcefield_helper.get_assignment_class: state = the three module globals.
   [file] abstracts a file name argument; None is Python's None (= the bundled default file). *)
From Coq Require Import List Bool Arith. Import ListNotations.
Definition file := option nat.
Definition file_eqb (a b : file) : bool :=
  match a, b with None, None => true | Some x, Some y => Nat.eqb x y | _, _ => false end.
(* what an assigner object was built from: SMARTS_ASSIGNMENTS(smarts_filename, nb_filename) *)
Inductive assigner := build (smarts nb : file).
Record cache := { g_cls : option assigner; g_nb : file; g_smarts : file }.
Definition is_none {A} (o : option A) := match o with None => true | Some _ => false end.
Definition init : cache := {| g_cls := None; g_nb := None; g_smarts := None |}.
