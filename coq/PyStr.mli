open Ascii
open BinInt
open BinNums
open Datatypes
open List0
open Nat0
open PeanoNat
open String0

type str = char list

val lit : char list -> str

val ch : char list -> char

val str_eqb : str -> str -> bool

val is_prefix : str -> str -> bool

val len : str -> coq_Z

val find_from : str -> str -> coq_Z -> coq_Z

val find : str -> str -> coq_Z

val contains : str -> str -> bool

val rfind_from : str -> str -> coq_Z -> coq_Z -> coq_Z

val rfind : str -> str -> coq_Z

val norm_idx : coq_Z -> coq_Z -> coq_Z

val slice : str -> coq_Z option -> coq_Z option -> str

val index : str -> coq_Z -> char option

val count_char : char -> str -> coq_Z

val is_ws : char -> bool

val lstrip_by : (char -> bool) -> str -> str

val rstrip_by : (char -> bool) -> str -> str

val strip_by : (char -> bool) -> str -> str

val strip : str -> str

val in_set : str -> char -> bool

val strip_chars : str -> str -> str

val split_ws_aux : str -> str -> str list

val split_ws : str -> str list

val is_digit : char -> bool

val digit_val : char -> coq_Z

val pos_digits_aux : nat -> coq_Z -> str -> str

val z_to_str : coq_Z -> str
