open BinInt
open BinNums
open Datatypes
open QArith_base

(** val coq_Qred : coq_Q -> coq_Q **)

let coq_Qred q =
  let { coq_Qnum = q1; coq_Qden = q2 } = q in
  let (r1, r2) = snd (Z.ggcd q1 (Zpos q2)) in
  { coq_Qnum = r1; coq_Qden = (Z.to_pos r2) }
