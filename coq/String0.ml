
(** val list_ascii_of_string : char list -> char list **)

let rec list_ascii_of_string = function
| [] -> []
| ch::s0 -> ch :: (list_ascii_of_string s0)
