open BinInt
open BinNums
open BinPos
open Zbool

type coq_Q = { coq_Qnum : coq_Z; coq_Qden : positive }

(** val inject_Z : coq_Z -> coq_Q **)

let inject_Z x =
  { coq_Qnum = x; coq_Qden = Coq_xH }

(** val coq_Qeq_bool : coq_Q -> coq_Q -> bool **)

let coq_Qeq_bool x y =
  coq_Zeq_bool (Z.mul x.coq_Qnum (Zpos y.coq_Qden))
    (Z.mul y.coq_Qnum (Zpos x.coq_Qden))

(** val coq_Qle_bool : coq_Q -> coq_Q -> bool **)

let coq_Qle_bool x y =
  Z.leb (Z.mul x.coq_Qnum (Zpos y.coq_Qden))
    (Z.mul y.coq_Qnum (Zpos x.coq_Qden))

(** val coq_Qplus : coq_Q -> coq_Q -> coq_Q **)

let coq_Qplus x y =
  { coq_Qnum =
    (Z.add (Z.mul x.coq_Qnum (Zpos y.coq_Qden))
      (Z.mul y.coq_Qnum (Zpos x.coq_Qden))); coq_Qden =
    (Pos.mul x.coq_Qden y.coq_Qden) }

(** val coq_Qmult : coq_Q -> coq_Q -> coq_Q **)

let coq_Qmult x y =
  { coq_Qnum = (Z.mul x.coq_Qnum y.coq_Qnum); coq_Qden =
    (Pos.mul x.coq_Qden y.coq_Qden) }
