#!/bin/bash
# run_lane.sh <tier> <seed> <props...>: the given checks in sequence, one summary line each
export OMP_NUM_THREADS=1 VERIF_TIER=$1 VERIF_SEED=$2; shift 2
cd /verif
for p in "$@"; do
  t0=$(date +%s)
  out=$(./check $p --tier $VERIF_TIER 2>&1); rc=$?
  echo "$p rc=$rc $(echo "$out" | grep -c '^VIOLATION') violations, $(echo "$out" | grep -c '^KNOWN-FINDING') known, $(( $(date +%s) - t0 )) s | $(echo "$out" | tail -1)"
  echo "$out" | grep '^VIOLATION' | head -3
done
