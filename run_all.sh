#!/bin/bash
# run_all.sh <seed> <tier>: every registered check in sequence; prints one line per property
export OMP_NUM_THREADS=1 VERIF_SEED=${1:-1} VERIF_TIER=${2:-quick}
cd /verif
for p in C01 C02 C03 C04 C05 C06 C07 C08 C09 C10 C11 C12 C13 C14 C15 C16 C17 C18 C19 C20; do
  out=$(./check $p --tier $VERIF_TIER 2>&1); rc=$?
  echo "$p rc=$rc $(echo "$out" | grep -c '^VIOLATION') violations, $(echo "$out" | grep -c '^KNOWN-FINDING') known | $(echo "$out" | tail -1)"
  echo "$out" | grep '^VIOLATION' | head -3
done
